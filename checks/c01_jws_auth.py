"""C01 - JWS verification returns only authentically signed content.

For each generated base token (minted by joserfc or by the reference with an arbitrary header spelling) every
single-bit flip of every decoded segment, every signature truncation/extension, cross-token splices, structural
JSON edits, key substitution and alg=none variants are applied.  Oracle (differential, computed per faulted
token): if joserfc returns an object, the independent reference verifier - which implements the statement
literally - must accept the same token under the same keys and recover the same payload and protected header.
"""
from __future__ import annotations
import copy
import json
import warnings

from hypothesis import strategies as st

from harness.core import HarnessError
from harness.hyp import drive
from gens import jwsplan as jp, keys as gk
from gens.jose import ALL_JWS, exc_key, jkey
from gens.spelling import spelling
from ref import b64 as rb, jws as rjws, keys as rk, selftest

LEVEL = "fault_enumeration"
RULE = ("base token = generated signing plan (14 algs x key classes x compact/flattened/general x b64 absent/true/false x "
        "header placement x payload <= 48 octets) minted by joserfc or by the reference; faults enumerated per base token: "
        "every single-bit flip of the decoded protected header, payload and signature, every signature truncation length (and 1-3 octets "
        "from the front; RSA base tokens whose signature starts with a zero octet are found by construction), "
        "extension by 1-3 octets and doubling, pairs of flips (sampled), every segment spliced from a second valid token, "
        "structural JSON edits (empty/missing signature list, one of several signatures corrupted, forged entry appended, "
        "swapped signatures, dropped protected member, shadowing unprotected alg, unprotected b64, flattened<->general), key "
        "substitution and alg=none variants, through every verification entry point (incl. extract+validate with another token extracted "
        "in between, a caller-supplied payload other than the signed one, and '+again': the same token verified a second time after the "
        "application edited the object the first call returned; key given as key, key set with kid, callable or single-key set without kid; tokens that carry the b64 switch are also shown to the RFC 7515 and JWT entry points, which may refuse them but must not return anything but the signed payload). "
        "A (token, fault) pair is non-trivial "
        "when the fault changes an octet of the signing input, the signature, the signature list or the key; distinct = "
        "digest of (alg, serialization, b64, entry point, fault descriptor).")
ASSUMPTIONS = ["unforgeability of the primitives is assumed: a fault that yields another valid signature is judged by the reference, not assumed invalid",
               "the reference verifier (/verif/ref/jws.py) implements the statement literally; self-tested on RFC vectors at start-up",
               "slow curves (ES384/ES512/ES256K): header/payload bit flips are sampled 1 in 4, signature flips are exhaustive"]
BUDGET_S = {"quick": 85, "thorough": 1500}
FLOORS = {"quick": {"fault:flip": 50000, "fault:truncate": 3000, "fault:structural": 300, "fault:keysub": 200, "fault:splice": 300, "base:accepted": 300},
          "thorough": {"fault:flip": 500000, "fault:structural": 3000}}
SLOW = {"ES384", "ES512", "ES256K"}

small_payload = st.one_of(st.just(b""), st.binary(max_size=12), st.just(b'{"sub":"a","exp":2000000000}'),
                          st.text(alphabet="abcXYZ019-_~", min_size=1, max_size=10).map(str.encode), st.just(b"$.02"), st.just(b"a.b"),
                          st.text(max_size=8).map(lambda s: s.encode()), st.binary(min_size=16, max_size=48))

case_strategy = st.fixed_dictionaries({
    "plan": jp.plans(utf8_only=True),
    "payload2": small_payload.map(bytes.hex),
    "minter": st.sampled_from(["joserfc", "ref"]),
    "spellings": st.lists(spelling, min_size=3, max_size=3),
    "entry": st.integers(0, 7),
    "keymode": st.sampled_from(["key", "key", "keyset_kid", "callable_key", "keyset_single"]),
    "otherkey_seed": st.integers(0, 2**32),
    "pairs": st.lists(st.tuples(st.integers(0, 10**6), st.integers(0, 10**6)), min_size=6, max_size=6),
})


def shards(tier):
    return [(f"f{i:02d}", {"i": i}) for i in range(16)]


# ------------------------------------------------------------------ entry points
def entries_for(plan):
    """'+again': the entry is called, the object it returned is altered by the application, and the entry is called a second time
    on the same token - what the second call reports must again be exactly what is signed."""
    if plan["ser"] == "compact":
        if plan["b64"] is None:
            return ["jws.deserialize_compact", "jws.extract+validate", "jws.extract+extract-other+validate", "rfc7797.deserialize_compact", "jwt.decode",
                    "jws.deserialize_compact+again", "jwt.decode+again"]
        return ["rfc7797.deserialize_compact", "rfc7797.deserialize_compact+payload", "rfc7797.deserialize_compact+otherpayload", "rfc7797.deserialize_compact+payload+again"]
    if plan["b64"] is None:
        return ["jws.deserialize_json", "rfc7797.deserialize_json", "jws.deserialize_json+again", "rfc7797.deserialize_json+registry"]
    return ["rfc7797.deserialize_json", "rfc7797.deserialize_json+again", "rfc7797.deserialize_json+registry"]


def _taint(o):
    """What an application may do with the object it was handed: edit its header dicts and claims."""
    for d in ([getattr(o, "protected", None), getattr(o, "header", None), getattr(o, "claims", None)] +
              [x for m in getattr(o, "members", []) or [] for x in (m.protected, m.header)]):
        if isinstance(d, dict):
            d["x-taint"] = "tainted"


def call_entry(entry, token, keyarg, payload_arg=None, other_token=None):
    """Returns (payload_bytes_or_claims, protected_headers_list, is_claims)."""
    from joserfc import jws, jwt, rfc7797
    tok = copy.deepcopy(token)
    if entry.endswith("+b64token"):
        entry = entry[:-len("+b64token")]
    if entry.endswith("+again"):
        entry = entry[:-len("+again")]
        kw = {"algorithms": ALL_JWS}
        first = (jwt.decode(tok, keyarg, **kw) if entry == "jwt.decode" else
                 jws.deserialize_compact(tok, keyarg, **kw) if entry == "jws.deserialize_compact" else
                 rfc7797.deserialize_compact(tok, keyarg, payload=payload_arg, **kw) if entry == "rfc7797.deserialize_compact+payload" else
                 jws.deserialize_json(tok, keyarg, **kw) if entry == "jws.deserialize_json" else rfc7797.deserialize_json(tok, keyarg, **kw))
        _taint(first)
        tok = copy.deepcopy(token)
    if entry == "jws.deserialize_compact":
        o = jws.deserialize_compact(tok, keyarg, algorithms=ALL_JWS)
        return o.payload, [o.protected], False
    if entry == "jws.extract+validate":
        o = jws.extract_compact(tok if isinstance(tok, bytes) else tok.encode())
        if not jws.validate_compact(o, keyarg, algorithms=ALL_JWS):
            raise ValueError("validate_compact returned False")
        return o.payload, [o.protected], False
    if entry == "jws.extract+extract-other+validate":
        # another (valid) token is extracted between extracting and validating the token under test
        o = jws.extract_compact(tok if isinstance(tok, bytes) else tok.encode())
        if other_token is not None:
            jws.extract_compact(other_token if isinstance(other_token, bytes) else other_token.encode())
        if not jws.validate_compact(o, keyarg, algorithms=ALL_JWS):
            raise ValueError("validate_compact returned False")
        return o.payload, [o.protected], False
    if entry == "rfc7797.deserialize_compact+otherpayload":
        # the caller hands over a payload that differs from what was signed (and from an embedded one)
        o = rfc7797.deserialize_compact(tok, keyarg, payload=b"other-" + (payload_arg or b""), algorithms=ALL_JWS)
        return o.payload, [o.protected], False
    if entry == "rfc7797.deserialize_compact":
        o = rfc7797.deserialize_compact(tok, keyarg, algorithms=ALL_JWS)
        return o.payload, [o.protected], False
    if entry == "rfc7797.deserialize_compact+payload":
        o = rfc7797.deserialize_compact(tok, keyarg, payload=payload_arg, algorithms=ALL_JWS)
        return o.payload, [o.protected], False
    if entry == "jwt.decode":
        t = jwt.decode(tok, keyarg, algorithms=ALL_JWS)
        return t.claims, [t.header], True
    if entry == "jws.deserialize_json":
        o = jws.deserialize_json(tok, keyarg, algorithms=ALL_JWS)
        return o.payload, [m.protected or {} for m in o.members], False
    if entry == "rfc7797.deserialize_json+registry":
        # the caller hands over the RFC 7797 registry itself (it knows "b64") instead of a list of names
        o = rfc7797.deserialize_json(tok, keyarg, registry=rfc7797.JWSRegistry(algorithms=ALL_JWS))
        return o.payload, [m.protected or {} for m in o.members], False
    if entry == "rfc7797.deserialize_json":
        o = rfc7797.deserialize_json(tok, keyarg, algorithms=ALL_JWS)
        return o.payload, [m.protected or {} for m in o.members], False
    raise ValueError(entry)


_KEYARG_CACHE: dict = {}


def _keyarg(plan, keymode):
    ck = (json.dumps([m["key"] for m in plan["members"]], sort_keys=True), json.dumps([m["kid"] for m in plan["members"]]), keymode)
    v = _KEYARG_CACHE.get(ck)
    if v is None:
        if len(_KEYARG_CACHE) > 8:
            _KEYARG_CACHE.clear()
        v = _KEYARG_CACHE[ck] = (jp.jose_keyarg(plan, keymode, False), jp.ref_keyres(plan))
    return v


def judge(entry, token, plan, keymode, payload_arg=None, none_allowed=False, other_token=None, keyarg_override=None):
    """None = joserfc rejected (fine for a faulted token). Otherwise (kind, text) of the violation or 'ok'."""
    keyarg, kr = _keyarg(plan, keymode)
    if keyarg_override is not None:
        keyarg = keyarg_override
    try:
        got_payload, got_prot, is_claims = call_entry(entry, token, keyarg, payload_arg, other_token)
    except Exception:
        return None
    if entry.endswith("+otherpayload"):
        # whatever comes back must be what was signed: the token is judged with the payload that was actually handed over
        payload_arg = b"other-" + (payload_arg or b"")
    rfc7797 = entry.startswith("rfc7797")
    if entry.endswith("+b64token"):
        # a token carrying the RFC 7797 switch shown to an RFC 7515 / JWT entry point: refusing is fine, but whatever is
        # returned as verified must be what the signer signed (the signer followed RFC 7797)
        entry = entry[:-len("+b64token")]
        rfc7797 = True
    if entry.endswith("+again"):
        entry = entry[:-len("+again")]
    if entry.endswith("+registry"):
        entry = entry[:-len("+registry")]
    try:
        detached = payload_arg if entry.endswith(("+payload", "+otherpayload")) else None
        if isinstance(token, (str, bytes)):
            try:
                if entry.endswith("+otherpayload"):
                    # first reading: the token as it stands (the payload argument is irrelevant, e.g. b64=true or an embedded payload)
                    try:
                        r = rjws.verify_compact(token, kr, rfc7797=rfc7797)
                    except rjws.Reject:
                        r = rjws.verify_compact(token, kr, rfc7797=rfc7797, detached_payload=detached)
                else:
                    r = rjws.verify_compact(token, kr, rfc7797=rfc7797, detached_payload=detached)
            except rjws.Reject:
                if not (detached and entry.endswith(("+payload", "+otherpayload"))):
                    raise
                # a caller-supplied payload replaces whatever stands in the payload segment: judge the token as detached
                tb = token if isinstance(token, bytes) else token.encode("utf-8")
                parts = tb.split(b".")
                if len(parts) != 3:
                    raise
                r = rjws.verify_compact(parts[0] + b".." + parts[2], kr, rfc7797=rfc7797, detached_payload=detached)
        else:
            r = rjws.verify_json(token, kr, rfc7797=rfc7797)
    except rjws.Reject as e:
        return ("accepted-but-not-authentic", f"{entry} returned {str(got_payload)[:60]!r} but the token is not valid: {e}")
    want = r["payload"]
    if is_claims:
        try:
            want = json.loads(want)
        except ValueError:
            return ("claims-from-non-json", f"{entry} returned claims {got_payload!r} for payload {r['payload'][:60]!r}")
    if got_payload != want:
        return ("payload-differs", f"{entry} returned payload {str(got_payload)[:80]!r}; the signed payload is {str(want)[:80]!r}")
    ref_prot = [m["protected"] for m in r["members"]]
    if [p or {} for p in got_prot] != ref_prot:
        return ("protected-header-differs", f"{entry} returned protected headers {got_prot!r}; signed: {ref_prot!r}")
    return "ok"


# ------------------------------------------------------------------ faults
def _segs(token):
    """Addressable base64url/raw segments: list of (address, kind)."""
    if isinstance(token, (str, bytes)):
        return [(("c", 0), "protected"), (("c", 1), "payload"), (("c", 2), "signature")]
    out = [(("payload",), "payload")]
    if "signatures" in token:
        for i, s in enumerate(token["signatures"]):
            if "protected" in s:
                out.append((("signatures", i, "protected"), "protected"))
            out.append((("signatures", i, "signature"), "signature"))
    else:
        if "protected" in token:
            out.append((("protected",), "protected"))
        out.append((("signature",), "signature"))
    return out


def _get(token, addr):
    if addr[0] == "c":
        t = token if isinstance(token, bytes) else token.encode("utf-8")
        return t.split(b".")[addr[1]]
    x = token
    for a in addr:
        x = x[a]
    return x.encode("utf-8")


def _set(token, addr, value: bytes):
    if addr[0] == "c":
        t = token if isinstance(token, bytes) else token.encode("utf-8")
        parts = t.split(b".")
        parts[addr[1]] = value
        return b".".join(parts)
    out = copy.deepcopy(token)
    x = out
    for a in addr[:-1]:
        x = x[a]
    x[addr[-1]] = value.decode("utf-8", "surrogateescape")
    return out


def _decode(seg: bytes, raw: bool) -> bytes:
    return seg if raw else rb.decode(seg)


def _encode(data: bytes, raw: bool) -> bytes:
    return data if raw else rb.encode(data).encode()


def apply_fault(token, token2, fault, raw_payload: bool):
    """Apply a fault descriptor; returns the faulted token or None when not applicable."""
    k = fault["kind"]
    if k in ("flip", "flip2", "truncate", "truncate-front", "extend", "double", "splice", "empty", "prepend", "pad-halves", "strip-halves", "der"):
        addr = tuple(fault["addr"])
        raw = raw_payload and addr in (("c", 1), ("payload",))
        try:
            data = _decode(_get(token, addr), raw)
        except (ValueError, KeyError, IndexError):
            return None
        if k in ("flip", "flip2"):
            bits = [fault["bit"]] + ([fault["bit2"]] if k == "flip2" else [])
            b = bytearray(data)
            for bit in bits:
                if bit >= len(b) * 8:
                    return None
                b[bit // 8] ^= 0x80 >> (bit % 8)
            if k == "flip2" and addr != tuple(fault.get("addr2", addr)):
                # second flip in another segment
                t1 = _set(token, addr, _encode(bytes(b[:]), raw)) if False else None
            new = bytes(b)
        elif k == "truncate":
            new = data[:fault["n"]]
        elif k == "truncate-front":
            if fault["n"] >= len(data):
                return None
            new = data[fault["n"]:]
        elif k == "extend":
            new = data + bytes(fault["tail"])
        elif k == "double":
            new = data + data
        elif k == "prepend":
            new = bytes(fault["head"]) + data
        elif k == "pad-halves":
            if len(data) % 2 or not data:
                return None
            h = len(data) // 2
            z = bytes(fault["n"])
            new = z + data[:h] + z + data[h:]
        elif k == "strip-halves":
            h = len(data) // 2
            if len(data) % 2 or h < 2 or data[0] or data[h]:
                return None
            new = data[1:h] + data[h + 1:]
        elif k == "der":
            if len(data) % 2 or not data or len(data) > 140:
                return None
            h = len(data) // 2

            def _int(b):
                b = b.lstrip(b"\x00") or b"\x00"
                if b[0] & 0x80:
                    b = b"\x00" + b
                return b"\x02" + bytes([len(b)]) + b
            body = _int(data[:h]) + _int(data[h:])
            if len(body) > 255:
                return None
            new = b"\x30" + (bytes([len(body)]) if len(body) < 128 else b"\x81" + bytes([len(body)])) + body
        elif k == "empty":
            new = b""
        elif k == "splice":
            try:
                return _set(token, addr, _get(token2, addr))
            except (KeyError, IndexError):
                return None
        if raw:
            try:
                new.decode("utf-8")
            except UnicodeDecodeError:
                if not isinstance(token, (str, bytes)):
                    return None  # a JSON member cannot carry it
        return _set(token, addr, _encode(new, raw))
    if isinstance(token, (str, bytes)):
        t = token if isinstance(token, str) else token.decode("utf-8", "surrogateescape")
        h, p, s = t.split(".")
        if k == "none-empty-sig":
            return rb.encode(b'{"alg":"none"}') + "." + p + "."
        if k == "none-keep-sig":
            return rb.encode(b'{"alg":"none"}') + "." + p + "." + s
        if k == "none-in-header-keep-rest":
            try:
                hd = json.loads(rb.decode(h))
                hd["alg"] = "none"
                return rb.encode(json.dumps(hd, separators=(",", ":")).encode()) + "." + p + "."
            except ValueError:
                return None
        return None
    # ---- structural edits of the JSON serialization
    t = copy.deepcopy(token)
    general = "signatures" in t
    if k == "sigs-empty":
        if not general:
            t = {"payload": t["payload"], "signatures": []}
        else:
            t["signatures"] = []
        return t
    if k == "sigs-missing":
        for m in ("signatures", "signature", "protected", "header"):
            t.pop(m, None)
        return t
    if k.startswith("add-protected-"):
        # an entry without protected header (everything unprotected) gets a protected member that decodes to the empty object:
        # the signing input changes from "." + payload to "<that text>." + payload
        ents_ = t["signatures"] if general else [t]
        done = False
        for e in ents_:
            if isinstance(e, dict) and "protected" not in e:
                e["protected"] = k[len("add-protected-"):]
                done = True
        return t if done else None
    if k == "to-general":
        if general:
            return None
        return {"payload": t["payload"], "signatures": [{m: t[m] for m in ("protected", "header", "signature") if m in t}]}
    if k == "to-flattened":
        if not general or len(t["signatures"]) != 1:
            return None
        return {"payload": t["payload"], **t["signatures"][0]}
    if k == "unprotected-b64-false":
        e = t["signatures"][fault.get("i", 0)] if general else t
        if general and fault.get("i", 0) >= len(t["signatures"]):
            return None
        e["header"] = {**(e.get("header") or {}), "b64": False, "crit": ["b64"]}
        return t
    if k == "unprotected-b64-true":
        e = t["signatures"][0] if general else t
        e["header"] = {**(e.get("header") or {}), "b64": True}
        return t
    if k == "unprotected-alg":
        e = t["signatures"][0] if general else t
        e["header"] = {**(e.get("header") or {}), "alg": fault["alg"]}
        return t
    if k == "unprotected-extra":
        e = t["signatures"][0] if general else t
        e["header"] = {**(e.get("header") or {}), "cty": "x"}
        return t
    if k == "drop-protected":
        e = t["signatures"][0] if general else t
        if "protected" not in e:
            return None
        del e["protected"]
        return t
    if k == "drop-header":
        e = t["signatures"][0] if general else t
        if "header" not in e:
            return None
        del e["header"]
        return t
    if not general:
        return None
    sigs = t["signatures"]
    if k == "corrupt-one":
        i = fault["i"]
        if i >= len(sigs) or len(sigs) < 2:
            return None
        raw = bytearray(rb.decode(sigs[i]["signature"]) or b"\x00")
        raw[fault["byte"] % len(raw)] ^= 0x01
        sigs[i]["signature"] = rb.encode(bytes(raw))
        return t
    if k == "append-forged":
        e = copy.deepcopy(sigs[0])
        raw = bytearray(rb.decode(e["signature"]) or b"\x00")
        raw[-1] ^= 0xFF
        e["signature"] = rb.encode(bytes(raw))
        sigs.append(e)
        return t
    if k == "prepend-forged":
        e = copy.deepcopy(sigs[0])
        e["signature"] = rb.encode(b"\x00" * max(1, len(rb.decode(e["signature"]))))
        sigs.insert(0, e)
        return t
    if k == "duplicate":
        sigs.append(copy.deepcopy(sigs[0]))
        return t
    if k in ("dup-signature-other-protected", "dup-signature-no-protected"):
        # one more entry that repeats the signature value of a genuine entry under another (or no) protected header
        e = copy.deepcopy(sigs[0])
        try:
            hd = json.loads(rb.decode(e["protected"])) if "protected" in e else {}
        except ValueError:
            return None
        if k == "dup-signature-no-protected":
            if "protected" not in e:
                return None
            del e["protected"]
            e["header"] = {**hd, **(e.get("header") or {}), "x-note": "forged"} if False else {**{a: b for a, b in hd.items() if a in ("alg", "kid")}, **(e.get("header") or {})}
        else:
            hd["cty"] = "forged-content-type"
            e["protected"] = rb.encode(json.dumps(hd, separators=(",", ":")).encode())
        sigs.append(e)
        return t
    if k == "swap-sigs":
        if len(sigs) < 2:
            return None
        sigs[0]["signature"], sigs[1]["signature"] = sigs[1]["signature"], sigs[0]["signature"]
        return t
    if k == "drop-one":
        if len(sigs) < 2:
            return None
        del sigs[fault["i"] % len(sigs)]
        return t
    return None


STRUCTURAL = ["add-protected-e30", "add-protected-eyB9", "add-protected-IHt9", "sigs-empty", "sigs-missing", "to-general", "to-flattened", "unprotected-b64-false", "unprotected-b64-true",
              "unprotected-extra", "drop-protected", "drop-header", "append-forged", "prepend-forged", "duplicate", "swap-sigs",
              "dup-signature-other-protected", "dup-signature-no-protected"]
NONE_KINDS = ["none-empty-sig", "none-keep-sig", "none-in-header-keep-rest"]


def enumerate_faults(token, plan, pairs, stride_hp: int):
    # structural faults first: they are few and must not be cut off by the time budget
    if isinstance(token, (str, bytes)):
        for k in NONE_KINDS:
            yield {"kind": k}
    else:
        for k in STRUCTURAL:
            yield {"kind": k}
        n = len(token.get("signatures", []))
        for i in range(n):
            yield {"kind": "corrupt-one", "i": i, "byte": pairs[0][0]}
            yield {"kind": "drop-one", "i": i}
            yield {"kind": "unprotected-b64-false", "i": i}
        for alg in ("none", "HS256", plan["members"][0]["alg"]):
            yield {"kind": "unprotected-alg", "alg": alg}
    raw_payload = plan["b64"] is False
    # two passes over the segments: length faults, re-encodings and splices first, the (many) bit flips last
    for flips in (False, True):
      for addr, kind in _segs(token):
        raw = raw_payload and kind == "payload"
        try:
            data = _decode(_get(token, addr), raw)
        except ValueError:
            continue
        nbits = len(data) * 8
        step = 1 if kind == "signature" else stride_hp
        if flips:
            for bit in range(0, nbits, step):
                yield {"kind": "flip", "addr": list(addr), "seg": kind, "bit": bit}
            continue
        if kind == "signature":
            for n in range(len(data)):
                yield {"kind": "truncate", "addr": list(addr), "seg": kind, "n": n}
            for n in (1, 2, 3):
                yield {"kind": "truncate-front", "addr": list(addr), "seg": kind, "n": n}
            for tail in ([0], [0, 0], [1, 2, 3], [255]):
                yield {"kind": "extend", "addr": list(addr), "seg": kind, "tail": tail}
            yield {"kind": "double", "addr": list(addr), "seg": kind}
            for head in ([0], [0, 0], [255]):
                yield {"kind": "prepend", "addr": list(addr), "seg": kind, "head": head}
            for n in (1, 2, 8):
                yield {"kind": "pad-halves", "addr": list(addr), "seg": kind, "n": n}
            yield {"kind": "strip-halves", "addr": list(addr), "seg": kind}
            yield {"kind": "der", "addr": list(addr), "seg": kind}
        else:
            yield {"kind": "empty", "addr": list(addr), "seg": kind}
            yield {"kind": "extend", "addr": list(addr), "seg": kind, "tail": [32]}
        if nbits:
            for a, b in pairs[:2]:
                yield {"kind": "flip2", "addr": list(addr), "seg": kind, "bit": a % nbits, "bit2": b % nbits}
        yield {"kind": "splice", "addr": list(addr), "seg": kind}


def fault_class(fault) -> str:
    k = fault["kind"]
    if k in ("flip", "flip2"):
        return "flip"
    if k in ("truncate", "truncate-front", "extend", "double", "empty", "prepend", "pad-halves", "strip-halves", "der"):
        return "truncate"
    if k == "splice":
        return "splice"
    if k.startswith("none"):
        return "none"
    return "structural"


def finding_key(plan, fault, outcome) -> str:
    k = fault["kind"]
    seg = fault.get("seg", "")
    fam = plan["members"][0]["alg"][:2] if k in ("flip", "flip2", "truncate", "truncate-front", "extend", "double", "prepend", "pad-halves", "strip-halves", "der") and seg == "signature" else ""
    return "C01:" + ":".join(x for x in (k, seg, fam, plan["ser"], outcome) if x)


# ------------------------------------------------------------------ one case = one base token and all its faults
def mint(case):
    plan = case["plan"]
    keymode = case["keymode"] if len(plan["members"]) == 1 else "keyset_kid"
    mplan = jp.materialize(plan, keymode)
    m0 = mplan["members"][0]
    if (case["minter"] == "ref" and len(mplan["members"]) == 1 and m0["alg"] in ("RS256", "RS384", "RS512", "PS256", "PS384", "PS512") and plan["b64"] is None and case["pairs"][0][0] % 2 == 0
            and gk.key_from_record(m0["key"])["n"].bit_length() <= 2048):
        # one in 256 RSA signatures starts with a zero octet: look for such a token by varying the payload (PKCS#1 v1.5 is deterministic)
        base = bytes.fromhex(mplan["payload_hex"])
        for i in range(1500):
            trial = dict(mplan, payload_hex=(base + b"%d" % i).hex())
            tok = jp.ref_sign(trial, case["spellings"])
            sig = tok.rsplit(".", 1)[1] if isinstance(tok, str) else (tok.get("signature") or tok["signatures"][0]["signature"])
            if rb.decode(sig)[0] == 0:
                mplan = trial
                plan = dict(plan, payload_hex=trial["payload_hex"])
                break
    if case["minter"] == "ref":
        token = jp.ref_sign(mplan, case["spellings"])
        if isinstance(token, str) and plan["b64"] is False and jp.payload_class(bytes.fromhex(plan["payload_hex"])) != "urlsafe":
            token = jp.ref_sign(mplan, case["spellings"], detached=True)
    else:
        token, _ = jp.jose_sign(plan, keymode)
    plan2 = copy.deepcopy(mplan)
    plan2["payload_hex"] = case["payload2"]
    try:
        token2 = jp.ref_sign(plan2, case["spellings"])
    except UnicodeDecodeError:
        token2 = token
    return mplan, keymode, token, token2


def other_key(member, seed: int):
    """A different key of the same type/curve/size, deterministically derived from the seed."""
    k = gk.key_from_record(member["key"])
    import hashlib
    h = hashlib.sha512(str(seed).encode()).digest()
    if k["kty"] == "oct":
        nk = {"kty": "oct", "k": h[:max(1, len(k["k"]))] if len(k["k"]) <= 64 else h + h[:len(k["k"]) - 64]}
        if nk["k"] == k["k"]:
            nk["k"] = bytes([nk["k"][0] ^ 1]) + nk["k"][1:]
        return nk
    if k["kty"] == "RSA":
        pool = [p for p in gk.rsa_pool() if p["n"] != k["n"] and p["n"].bit_length() == k["n"].bit_length()] or \
               [p for p in gk.rsa_pool() if p["n"] != k["n"]]
        p = pool[seed % len(pool)]
        return {a: b for a, b in p.items() if a != "bits"}
    if k["kty"] == "EC":
        from ref.ec import CURVES
        d = int.from_bytes(h, "big") % (CURVES[k["crv"]].n - 1) + 1
        return gk.ec_from_d(k["crv"], d if d != k["d"] else d + 1)
    from ref.okp import OKP_SIZES
    n = OKP_SIZES[k["crv"]]
    seedb = (h + h)[:n]
    return gk.okp_from_seed(k["crv"], seedb if seedb != k.get("d") else bytes([seedb[0] ^ 1]) + seedb[1:])


def run_fault(case, mplan, keymode, token, token2, fault, entry):
    """Apply one fault and judge it. Returns None (rejected / n.a.), 'ok' or (outcome, text)."""
    payload = bytes.fromhex(mplan["payload_hex"])
    if fault["kind"] == "keysub":
        p2 = copy.deepcopy(mplan)
        i = fault["i"] % len(p2["members"])
        nk = other_key(p2["members"][i], case["otherkey_seed"] + fault.get("variant", 0))
        p2["members"][i]["key"] = gk.key_to_record(nk)
        return judge(entry, token, p2, keymode, payload)
    if fault["kind"] == "keysub-inplace":
        # a long-lived key set: the token is verified once, then the entry of the set that holds its key is REPLACED in place by
        # another key under the same kid (rotation); the old token must no longer verify
        from joserfc.jwk import KeySet
        ks, _ = _keyarg(mplan, keymode)
        if not isinstance(ks, KeySet):
            return "n/a"
        if judge(entry, token, mplan, keymode, payload) != "ok":
            return "n/a"
        i = fault["i"] % len(mplan["members"])
        kid = jp._kids(mplan)[i]
        j = next((n for n, k in enumerate(ks.keys) if k.kid == kid), None)
        if j is None:
            return "n/a"
        p2 = copy.deepcopy(mplan)
        nk = other_key(p2["members"][i], case["otherkey_seed"] + 3)
        p2["members"][i]["key"] = gk.key_to_record(nk)
        old = ks.keys[j]
        ks.keys[j] = jkey(nk if nk["kty"] == "oct" else rk.public_of(nk), "dict", nk["kty"] == "oct", {"kid": kid})
        try:
            return judge(entry, token, p2, keymode, payload, keyarg_override=ks)
        finally:
            ks.keys[j] = old
    if fault["kind"] == "keysub-blanks":
        # the verifier holds a secret that differs from the signer's by blanks / line breaks at its ends (handed over as raw octets):
        # another key
        from joserfc.jwk import OctKey
        if len(mplan["members"]) != 1 or gk.key_from_record(mplan["members"][0]["key"])["kty"] != "oct":
            return "n/a"
        k = gk.key_from_record(mplan["members"][0]["key"])["k"]
        raw = [b" " + k, k + b"\n", b"\r\n" + k + b" ", b"\t" + k][fault["variant"] % 4]
        p2 = copy.deepcopy(mplan)
        p2["members"][0]["key"] = gk.key_to_record({"kty": "oct", "k": raw})
        with warnings.catch_warnings():
            warnings.simplefilter("ignore")
            ko = OctKey.import_key(raw if fault["variant"] % 2 else raw.decode("latin-1")) if all(b < 128 for b in raw) or fault["variant"] % 2 else OctKey.import_key(raw)
        return judge(entry, token, p2, "key", payload, keyarg_override=ko)
    if fault["kind"] == "append-b64false-signature":
        # a general JSON JWS gains one more genuine signature by the same signer, made under b64=false over the payload TEXT as it
        # stands in the token: the signatures now disagree about what the payload is (RFC 7797 3: b64 must be the same for all)
        if not (isinstance(token, dict) and "signatures" in token and token["signatures"] and mplan["b64"] is None):
            return "n/a"
        m0 = mplan["members"][0]
        e0 = token["signatures"][0]
        try:
            prot0 = json.loads(rb.decode(e0["protected"])) if "protected" in e0 else {}
        except ValueError:
            return "n/a"
        if "alg" not in prot0 and "alg" not in (e0.get("header") or {}):
            return "n/a"
        prot = {**prot0, "b64": False, "crit": list(prot0.get("crit", [])) + ["b64"]}
        if "alg" not in prot:
            prot["alg"] = m0["alg"]
        unprot = {a: b for a, b in (e0.get("header") or {}).items() if a not in prot} or None
        sig = rjws.make_json_signature(json.dumps(prot, separators=(",", ":")).encode(), unprot, token["payload"].encode("utf-8"), m0["alg"],
                                       gk.key_from_record(m0["key"]), b64_payload=False)
        ft = copy.deepcopy(token)
        if fault.get("where") == "first":
            ft["signatures"].insert(0, sig)
        else:
            ft["signatures"].append(sig)
        return judge(entry, ft, mplan, keymode, payload)
    if fault["kind"] == "es-other-curve":
        # the verifier's EC key lives on another curve than the algorithm names; the token was signed with that key (ECDSA with the
        # algorithm's hash on the key's curve): not a signature of the named algorithm
        from ref.ec import CURVES as _C
        i = fault["i"] % len(mplan["members"])
        m = mplan["members"][i]
        if m["alg"] not in rjws.ES_CURVE:
            return "n/a"
        crv, hn = rjws.ES_CURVE[m["alg"]]
        other = fault["crv"]
        if other == crv:
            return "n/a"
        nk = gk.ec_from_d(other, 0xA11CE + case["otherkey_seed"] % 1000)
        c = _C[other]

        def sign(msg):
            r, s_ = c.ecdsa_sign(nk["d"], msg, hn, b"")
            return r.to_bytes(c.nsize, "big") + s_.to_bytes(c.nsize, "big")
        if isinstance(token, (str, bytes)):
            t = token if isinstance(token, str) else token.decode("ascii", "ignore")
            parts = t.split(".")
            if len(parts) != 3:
                return "n/a"
            ft = ".".join([parts[0], parts[1], rb.encode(sign((parts[0] + "." + parts[1]).encode()))])
        else:
            ft = copy.deepcopy(token)
            ent = ft["signatures"][i] if "signatures" in ft else ft
            ent["signature"] = rb.encode(sign((ent.get("protected", "") + "." + ft["payload"]).encode()))
        p2 = copy.deepcopy(mplan)
        p2["members"][i]["key"] = gk.key_to_record(nk)
        return judge(entry, ft, p2, keymode, payload)
    if fault["kind"] == "pss-salt":
        # the same token re-signed by the reference key holder with RSASSA-PSS but another salt length: not a PS256/384/512 signature
        from Crypto.Signature import pss
        i = fault["i"] % len(mplan["members"])
        m = mplan["members"][i]
        if not m["alg"].startswith("PS"):
            return "n/a"
        h = rjws.HASHES[m["alg"][2:]][1]
        k = rjws._rsa(gk.key_from_record(m["key"]), True)
        if isinstance(token, (str, bytes)):
            t = token if isinstance(token, str) else token.decode("ascii", "ignore")
            parts = t.split(".")
            if len(parts) != 3:
                return "n/a"
            try:
                sig = pss.new(k, salt_bytes=fault["salt"]).sign(h.new((parts[0] + "." + parts[1]).encode()))
            except ValueError:
                return "n/a"
            ft = ".".join([parts[0], parts[1], rb.encode(sig)])
        else:
            ft = copy.deepcopy(token)
            ent = ft["signatures"][i] if "signatures" in ft else ft
            try:
                sig = pss.new(k, salt_bytes=fault["salt"]).sign(h.new((ent.get("protected", "") + "." + ft["payload"]).encode()))
            except ValueError:
                return "n/a"
            ent["signature"] = rb.encode(sig)
        return judge(entry, ft, mplan, keymode, payload)
    if fault["kind"] == "base":
        return judge(entry, token, mplan, keymode, payload, other_token=token2 if isinstance(token2, (str, bytes)) else None)
    ft = apply_fault(token, token2, fault, mplan["b64"] is False)
    if ft is None:
        return "n/a"
    if isinstance(ft, bytes):
        try:
            ft.decode("utf-8")
        except UnicodeDecodeError:
            pass
    return judge(entry, ft, mplan, keymode, payload, other_token=token if isinstance(token, (str, bytes)) else None)


def run_shard(ctx, spec):
    from gens.jose import setup_joserfc
    setup_joserfc()
    selftest.run()

    def body(case):
        plan = case["plan"]
        pl = bytes.fromhex(plan["payload_hex"])
        if len(pl) > 48:
            plan = dict(plan, payload_hex=pl[:48].decode("utf-8", "ignore").encode().hex() if plan["b64"] is False else pl[:48].hex())
            case = dict(case, plan=plan)
        if plan["b64"] is False and case["pairs"][1][0] % 2 == 0:
            # an unencoded payload that happens to be valid base64url text: only then does it matter whether a verifier decodes it
            plan = dict(plan, payload_hex=[b"aGVsbG8", b"abcd", b"QUJD", b"AAAA-_-_", b"eyJhIjoxfQ"][case["pairs"][1][1] % 5].hex())
            case = dict(case, plan=plan)
        try:
            mplan, keymode, token, token2 = mint(case)
        except UnicodeDecodeError:
            ctx.dontcare("b64=false non-utf8")
            return
        pl = bytes.fromhex(mplan["payload_hex"])
        ents = entries_for(mplan)
        fault_ents = [e for e in ents if not e.endswith(("+otherpayload", "+again", "+registry"))]
        entry = fault_ents[case["entry"] % len(fault_ents)]
        if entry == "jwt.decode":
            try:
                if not isinstance(json.loads(pl), dict):
                    raise ValueError
            except ValueError:
                entry = ents[0]
        algs = [m["alg"] for m in mplan["members"]]
        label = (tuple(algs), mplan["ser"], mplan["b64"], case["minter"])
        # base token must be accepted by every applicable entry point
        try:
            pl_is_object = isinstance(json.loads(pl), dict)
        except ValueError:
            pl_is_object = False
        for e in ents:
            if e.startswith("jwt.decode") and not pl_is_object:
                continue
            if e == "rfc7797.deserialize_compact" and mplan["b64"] is False and isinstance(token, str) and ".." in token and pl:
                continue  # detached: payload must be handed over
            r = run_fault(case, mplan, keymode, token, token2, {"kind": "base"}, e)
            ctx.case(("base", label, e), cls="base:accepted" if r == "ok" else "base:other")
            if e.endswith("+otherpayload"):
                # a payload other than the signed one was handed over: refusing is right, returning unsigned content is not
                if r not in (None, "ok"):
                    ctx.finding(f"C01:unsigned-external-payload-returned:{mplan['ser']}", r[1], {"case": case, "fault": {"kind": "base"}, "entry": e, "token": token, "token2": token2})
                continue
            if r is None:
                if case["minter"] == "joserfc":
                    ctx.finding(f"C01:base-token-rejected:{mplan['ser']}:{e}", f"untouched token minted by joserfc is refused by {e}",
                                {"case": case, "fault": {"kind": "base"}, "entry": e, "token": token, "token2": token2})
                else:
                    ctx.dontcare("foreign-base-rejected")  # C07's business
            elif r != "ok":
                ctx.finding(f"C01:base:{mplan['ser']}:{r[0]}", r[1], {"case": case, "fault": {"kind": "base"}, "entry": e, "token": token, "token2": token2})
        if mplan["b64"] is not None:
            plain = ["jws.deserialize_compact", "jws.extract+validate"] + (["jwt.decode"] if entry != "jwt.decode" else []) if mplan["ser"] == "compact" else ["jws.deserialize_json"]
            for e in plain:
                e += "+b64token"
                r = run_fault(case, mplan, keymode, token, token2, {"kind": "base"}, e)
                ctx.case(("base", label, e), cls="base:b64-token-at-plain-entry:" + ("refused" if r is None else "accepted"))
                if r not in (None, "ok"):
                    ctx.finding(f"C01:b64-token-at-plain-entry:{mplan['ser']}:{r[0]}", r[1], {"case": case, "fault": {"kind": "base"}, "entry": e, "token": token, "token2": token2})
        stride = 4 if any(a in SLOW for a in algs) else 1
        n = 0
        for fault in enumerate_faults(token, mplan, case["pairs"], stride):
            if ctx.expired():
                break
            r = run_fault(case, mplan, keymode, token, token2, fault, entry)
            if r == "n/a":
                continue
            n += 1
            fc = fault_class(fault)
            ctx.case((label, entry, fault), cls=[f"fault:{fc}", f"outcome:{'rejected' if r is None else 'accepted-valid' if r == 'ok' else 'VIOLATION'}"],
                     sample={"algs": algs, "ser": mplan["ser"], "b64": mplan["b64"], "minter": case["minter"], "entry": entry, "fault": fault,
                             "outcome": "rejected" if r is None else r if r == "ok" else r[0]} if n % 211 == 1 else None)
            if r not in (None, "ok"):
                ctx.finding(finding_key(mplan, fault, r[0]), r[1], {"case": case, "fault": fault, "entry": entry, "token": token, "token2": token2})
            # structural faults go through every entry point
            if fc in ("structural", "none"):
                for e in ents:
                    if e != entry and not e.startswith("jwt.decode") and not e.endswith("+again"):
                        r2 = run_fault(case, mplan, keymode, token, token2, fault, e)
                        ctx.case((label, e, fault), cls=f"fault:{fc}")
                        if r2 not in (None, "ok", "n/a"):
                            ctx.finding(finding_key(mplan, fault, r2[0]), r2[1], {"case": case, "fault": fault, "entry": e, "token": token, "token2": token2})
        # key rotation inside a long-lived key set, PSS signatures with a foreign salt length
        for i in range(len(mplan["members"])):
            more = [{"kind": "keysub-inplace", "i": i}] + ([{"kind": "append-b64false-signature", "where": w} for w in ("last", "first")] if i == 0 else []) + ([{"kind": "keysub-blanks", "i": i, "variant": v} for v in range(4)] if algs[i].startswith("HS") else []) + ([{"kind": "pss-salt", "i": i, "salt": s_} for s_ in (0, 20, 33, 64)] if algs[i].startswith("PS") else []) + \
                   ([{"kind": "es-other-curve", "i": i, "crv": c_} for c_ in ("P-256", "P-384", "P-521", "secp256k1")] if algs[i].startswith("ES") else [])
            for fault in more:
                for e in ents:
                    if e.startswith("jwt.decode") or e.endswith(("+again", "+otherpayload")) or (e.endswith("+registry") and fault["kind"] != "append-b64false-signature"):
                        continue
                    r = run_fault(case, mplan, keymode, token, token2, fault, e)
                    if r == "n/a":
                        continue
                    ctx.case((label, e, json.dumps(fault, sort_keys=True)), cls=[f"fault:{fault['kind']}"])
                    if r not in (None, "ok"):
                        ctx.finding(f"C01:{fault['kind']}:{mplan['ser']}:{algs[i][:2]}:{r[0]}", r[1], {"case": case, "fault": fault, "entry": e, "token": token, "token2": token2})
        # key substitution
        for i in range(len(mplan["members"])):
            for variant in (0, 1):
                fault = {"kind": "keysub", "i": i, "variant": variant}
                for e in ents:
                    if (e.startswith("jwt.decode") and entry != "jwt.decode") or e.endswith("+again"):
                        continue
                    r = run_fault(case, mplan, keymode, token, token2, fault, e)
                    ctx.case((label, e, fault), cls=["fault:keysub", f"outcome:{'rejected' if r is None else 'accepted'}"])
                    if r not in (None, "ok"):
                        ctx.finding(f"C01:keysub:{mplan['ser']}:{algs[i][:2]}:{r[0]}", r[1], {"case": case, "fault": fault, "entry": e, "token": token, "token2": token2})
                    elif r == "ok":
                        raise HarnessError(f"reference accepts a token under a substituted key: {case!r}")
    drive(ctx, "faults", case_strategy, body, 24 if ctx.tier == "quick" else 600)


def replay(rec) -> dict:
    from gens.jose import setup_joserfc
    setup_joserfc()
    case, fault, entry = rec["case"], rec["fault"], rec["entry"]
    if "token" in rec:
        plan = case["plan"]
        keymode = case["keymode"] if len(plan["members"]) == 1 else "keyset_kid"
        mplan = jp.materialize(plan, keymode)
        token, token2 = rec["token"], rec.get("token2", rec["token"])
    else:
        mplan, keymode, token, token2 = mint(case)
    r = run_fault(case, mplan, keymode, token, token2, fault, entry)
    if fault["kind"] == "base":
        if entry.endswith("+otherpayload"):
            return {f"C01:unsigned-external-payload-returned:{mplan['ser']}": r[1]} if r not in (None, "ok", "n/a") else {}
        if r is None and case["minter"] == "joserfc":
            return {f"C01:base-token-rejected:{mplan['ser']}:{entry}": "untouched token refused"}
        if r not in (None, "ok", "n/a"):
            return {f"C01:base:{mplan['ser']}:{r[0]}": r[1]}
        return {}
    if r in (None, "ok", "n/a"):
        return {}
    if fault["kind"] in ("keysub", "keysub-inplace", "pss-salt", "es-other-curve"):
        algs = [m["alg"] for m in mplan["members"]]
        return {f"C01:{fault['kind']}:{mplan['ser']}:{algs[fault['i'] % len(algs)][:2]}:{r[0]}": r[1]}
    return {finding_key(mplan, fault, r[0]): r[1]}
