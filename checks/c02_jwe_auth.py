"""C02 - JWE decryption returns only authenticated plaintext.

Per generated base token: every single-bit flip of every decoded segment (encrypted-key flips sampled for
asymmetric / PBES2 recipients), every truncation/extension of tag and IV, re-spellings of the protected header that
parse to the same members, non-empty encrypted key in direct modes, cross-token splices, recipient/sender key
substitution, epk edits and forged invalid-point tokens, multi-recipient faults.  Oracle: whenever joserfc returns a
plaintext the independent reference decryptor must accept the same octets under the same keys and return the same
plaintext.
"""
from __future__ import annotations
import copy
import warnings
import hashlib
import json

from hypothesis import strategies as st

from harness.core import HarnessError
from harness.hyp import drive
from gens import jweplan as jp, keys as gk
from gens.spelling import spell, spelling
from ref import b64 as rb, jwe as rjwe, keys as rk, selftest
from ref.ec import CURVES

LEVEL = "fault_enumeration"
RULE = ("base token = generated encryption plan (21 algs x 8 encs x zip x curves x compact/flattened/general, 1-3 recipients, AAD, "
        "apu/apv; plaintext <= 48 octets) minted by joserfc or by the reference (arbitrary header spelling); faults enumerated per "
        "base token: every single-bit flip of the decoded protected header, IV, ciphertext, tag, AAD and encrypted key (64 sampled "
        "flips of the encrypted key for RSA/ECDH/PBES2 recipients), every truncation length and several extensions of tag and IV, 1-2 octets "
        "cut from the front of the encrypted key (RSA base tokens whose ciphertext starts with a zero octet are found by construction), "
        "6 re-spellings of the protected header with equal parsed members, non-empty encrypted key in direct modes, every segment "
        "spliced from a second token, recipient-key and sender-key substitution, epk edits (coordinate flips, other curve, (0,0), "
        "x>=p, private member, other kty) and reference-forged tokens whose epk is an off-curve or small-order point, multi-recipient "
        "faults (one recipient corrupted, recipients wrapping different CEKs, all bad) under all-recipient and any-recipient "
        "validation. non-trivial = fault alters an authenticated octet or key material; distinct = (algs, enc, zip, ser, entry, fault).")
ASSUMPTIONS = ["authenticity of the AEAD / key-wrap primitives is assumed; the reference decides every accepted token",
               "reference decryptor /verif/ref/jwe.py self-tested on RFC vectors at start-up",
               "any-recipient mode with recipients yielding different CEKs is DONT_CARE (statement silent); RSA1_5 implicit rejection may create that situation"]
BUDGET_S = {"quick": 85, "thorough": 1500}
FLOORS = {"quick": {"fault:flip": 30000, "fault:length": 2000, "fault:respell": 500, "fault:keysub": 200, "fault:splice": 500, "base:accepted": 250},
          "thorough": {"fault:flip": 300000}}
EXPENSIVE = tuple(rjwe.RSA_ALGS) + tuple(rjwe.PBES2) + tuple(rjwe.ECDH_ES) + tuple(rjwe.ECDH_1PU)

import zlib as _zlib
small_pt = st.one_of(st.just(b""), st.binary(max_size=16), st.just(b'{"sub":"a","exp":2000000000}'), st.binary(min_size=17, max_size=48),
                     # a plaintext that is itself a DEFLATE / zlib stream (an application that compresses before encrypting)
                     st.binary(max_size=12).map(lambda b: rjwe.deflate(b"A" * 20 + b)), st.binary(max_size=12).map(lambda b: _zlib.compress(b"A" * 20 + b)))

case_strategy = st.fixed_dictionaries({
    "plan": jp.plans(max_recipients=3, small=True),
    "pt": small_pt.map(bytes.hex),
    "pt2": small_pt.map(bytes.hex),
    "minter": st.sampled_from(["joserfc", "ref"]),
    "spelling": spelling,
    "seed": st.integers(0, 2**32),
    "in_protected": st.booleans(),
    "respell_seeds": st.lists(st.integers(0, 2**32), min_size=6, max_size=6),
    "sample_bits": st.lists(st.integers(0, 10**6), min_size=64, max_size=64),
})


def shards(tier):
    return [(f"f{i:02d}", {"i": i}) for i in range(16)]


# ------------------------------------------------------------------ entry / judge
def entries_for(plan, pt):
    if plan["ser"] == "compact":
        # ':nested' - the key is resolved by a callable that itself opens another compact JWE (say, a stored data key) first
        out = ["jwe.decrypt_compact", "jwe.decrypt_compact:nested"]
        try:
            if isinstance(json.loads(pt), dict) and not plan["sender"]:  # jwt.decode cannot be given a sender key
                out.append("jwt.decode")
        except ValueError:
            pass
        return out
    if len(plan["recipients"]) > 1:
        return ["jwe.decrypt_json", "jwe.decrypt_json:any", "jwe.decrypt_json:list+registry"]
    return ["jwe.decrypt_json"]


_CACHE: dict = {}
_OTHER = [None]      # a second valid token under the same keys (set per case), used by the ':nested' entry


def _keys(plan):
    """Long-lived key objects: the recipient's private key objects are the same whoever the sender is (a recipient keeps its key
    while it hears from several senders), sender key objects are per sender key."""
    from gens.jose import jkey
    if len(_CACHE) > 12:
        _CACHE.clear()
    ck = "R" + json.dumps([{k: v for k, v in r.items() if k in ("key", "kid")} for r in plan["recipients"]], sort_keys=True)
    keys = _CACHE.get(ck)
    if keys is None:
        keys = _CACHE[ck] = jp.jose_private_keys(plan)
    sender = None
    if plan["sender"]:
        sk = "S" + json.dumps(plan["sender"], sort_keys=True)
        sender = _CACHE.get(sk)
        if sender is None:
            sender = _CACHE[sk] = jkey(rk.public_of(gk.key_from_record(plan["sender"])), "dict", False)
    return keys, sender


def call_entry(entry, token, plan, index=0):
    from joserfc import jwe, jwt
    from joserfc.jwk import KeySet
    keys, sender = _keys(plan)
    tok = copy.deepcopy(token)
    if entry == "jwe.decrypt_compact":
        return jwe.decrypt_compact(tok, keys[0], algorithms=jp.ALL_NAMES, sender_key=sender).plaintext, False
    if entry == "jwe.decrypt_compact:nested":
        other = _OTHER[0]

        def resolve(obj):
            if isinstance(other, str):
                jwe.decrypt_compact(other, keys[0], algorithms=jp.ALL_NAMES, sender_key=sender)
            return keys[0]
        return jwe.decrypt_compact(tok, resolve, algorithms=jp.ALL_NAMES, sender_key=sender).plaintext, False
    if entry == "jwt.decode":
        reg = jwe.JWERegistry(algorithms=jp.ALL_NAMES)
        return jwt.decode(tok, keys[0], registry=reg).claims, True
    if entry == "jwe.decrypt_json":
        keyarg = keys[0] if len(keys) == 1 else KeySet(keys)
        return jwe.decrypt_json(tok, keyarg, algorithms=jp.ALL_NAMES, sender_key=sender).plaintext, False
    if entry == "jwe.decrypt_json:list+registry":
        # a list of names next to a caller registry that merely switches strict header checking off: every recipient still counts
        keyarg = keys[0] if len(keys) == 1 else KeySet(keys)
        return jwe.decrypt_json(tok, keyarg, algorithms=jp.ALL_NAMES, registry=jwe.JWERegistry(strict_check_header=False), sender_key=sender).plaintext, False
    if entry == "jwe.decrypt_json:any":
        reg = jwe.JWERegistry(algorithms=jp.ALL_NAMES, verify_all_recipients=False)
        return jwe.decrypt_json(tok, KeySet(keys), registry=reg, sender_key=sender).plaintext, False
    raise ValueError(entry)


def judge(entry, token, plan):
    try:
        got, is_claims = call_entry(entry, token, plan)
    except Exception:
        return None
    try:
        r = jp.ref_decrypt(token, plan, any_recipient=entry.endswith(":any"))
    except rjwe.Reject as e:
        if entry.endswith(":any") and "different CEKs" in str(e):
            return "dont_care"
        return ("returned-but-not-authentic", f"{entry} returned {str(got)[:60]!r} but the token is not valid: {e}")
    want = r["plaintext"]
    if is_claims:
        try:
            want = json.loads(want)
        except ValueError:
            return ("claims-from-non-json", f"claims {got!r}")
    if got != want:
        return ("plaintext-differs", f"{entry} returned {str(got)[:60]!r}; authenticated plaintext is {str(want)[:60]!r}")
    return "ok"


# ------------------------------------------------------------------ faults
def _segs(token, plan):
    if isinstance(token, (str, bytes)):
        return [(("c", 0), "protected"), (("c", 1), "encrypted_key"), (("c", 2), "iv"), (("c", 3), "ciphertext"), (("c", 4), "tag")]
    out = [(("protected",), "protected"), (("iv",), "iv"), (("ciphertext",), "ciphertext"), (("tag",), "tag")]
    if "aad" in token:
        out.append((("aad",), "aad"))
    if "recipients" in token:
        for i, r in enumerate(token["recipients"]):
            if "encrypted_key" in r:
                out.append((("recipients", i, "encrypted_key"), "encrypted_key"))
    elif "encrypted_key" in token:
        out.append((("encrypted_key",), "encrypted_key"))
    return out


def _get(token, addr):
    if addr[0] == "c":
        return token.split(".")[addr[1]]
    x = token
    for a in addr:
        x = x[a]
    return x


def _set(token, addr, value: str):
    if addr[0] == "c":
        parts = token.split(".")
        parts[addr[1]] = value
        return ".".join(parts)
    out = copy.deepcopy(token)
    x = out
    for a in addr[:-1]:
        x = x[a]
    x[addr[-1]] = value
    return out


def _recipient_entries(token):
    if isinstance(token, dict):
        return token["recipients"] if "recipients" in token else [token]
    return []


def apply_fault(token, token2, fault, plan):
    k = fault["kind"]
    if k in ("flip", "truncate", "truncate-front", "extend", "splice", "set"):
        addr = tuple(fault["addr"])
        try:
            data = rb.decode(_get(token, addr))
        except (ValueError, KeyError, IndexError):
            return None
        if k == "flip":
            if fault["bit"] >= len(data) * 8:
                return None
            b = bytearray(data)
            b[fault["bit"] // 8] ^= 0x80 >> (fault["bit"] % 8)
            new = bytes(b)
        elif k == "truncate":
            new = data[:fault["n"]]
        elif k == "truncate-front":
            if fault["n"] >= len(data):
                return None
            new = data[fault["n"]:]
        elif k == "extend":
            new = data + bytes(fault["tail"])
        elif k == "set":
            new = bytes(fault["value"])
        else:
            try:
                return _set(token, addr, _get(token2, addr))
            except (KeyError, IndexError):
                return None
        return _set(token, addr, rb.encode(new))
    if k == "shift-boundary":
        # paired length fault: move n octets across the boundary of two adjacent authenticated segments
        a, b = tuple(fault["from"]), tuple(fault["to"])
        try:
            da, db = rb.decode(_get(token, a)), rb.decode(_get(token, b))
        except (ValueError, KeyError, IndexError):
            return None
        n = fault["n"]
        if fault["dir"] == "tail-to-head":       # end of a -> front of b
            if n > len(da):
                return None
            da, db = da[:len(da) - n], da[len(da) - n:] + db
        else:                                     # front of b -> end of a
            if n > len(db):
                return None
            da, db = da + db[:n], db[n:]
        return _set(_set(token, a, rb.encode(da)), b, rb.encode(db))
    if k == "respell":
        addr = ("c", 0) if isinstance(token, str) else ("protected",)
        hdr = json.loads(rb.decode(_get(token, addr)))
        text = spell(hdr, fault["style"], fault["seed"])
        if text == rb.decode(_get(token, addr)):
            return None
        return _set(token, addr, rb.encode(text))
    if k == "nonempty-ek":
        if isinstance(token, str):
            return _set(token, ("c", 1), rb.encode(bytes(fault["value"])))
        t = copy.deepcopy(token)
        _recipient_entries(t)[0]["encrypted_key"] = rb.encode(bytes(fault["value"]))
        return t
    if k == "unprot-set":
        if isinstance(token, str):
            return None
        t = copy.deepcopy(token)
        prot = json.loads(rb.decode(t["protected"])) if t.get("protected") else {}
        if fault["name"] in ("enc", "alg") and fault["name"] not in prot:
            return None      # only where the protected header already settles the member
        if fault["where"] == "unprotected":
            t["unprotected"] = {**(t.get("unprotected") or {}), fault["name"]: fault["value"]}
        else:
            e = _recipient_entries(t)[0]
            e["header"] = {**(e.get("header") or {}), fault["name"]: fault["value"]}
        return t
    if k == "add-empty-aad":
        if isinstance(token, str) or "aad" in token:
            return None
        return dict(copy.deepcopy(token), aad=rb.encode(bytes(fault["value"])))
    if k == "drop-aad":
        if isinstance(token, str) or "aad" not in token:
            return None
        t = copy.deepcopy(token)
        del t["aad"]
        return t
    if k.startswith("epk-"):
        # edit the epk where it stands unprotected (per-recipient header of a JSON token)
        if isinstance(token, str):
            return None
        t = copy.deepcopy(token)
        ent = _recipient_entries(t)
        i = fault.get("i", 0)
        if i >= len(ent) or "epk" not in (ent[i].get("header") or {}):
            return None
        epk = ent[i]["header"]["epk"]
        if k == "epk-flip":
            m = fault["member"]
            if m not in epk:
                return None
            b = bytearray(rb.decode(epk[m]))
            if not b:
                return None
            b[fault["bit"] // 8 % len(b)] ^= 0x80 >> (fault["bit"] % 8)
            epk[m] = rb.encode(bytes(b))
        elif k == "epk-zero":
            for m in ("x", "y"):
                if m in epk:
                    epk[m] = rb.encode(bytes(len(rb.decode(epk[m]))))
        elif k == "epk-big-x":
            epk["x"] = rb.encode(b"\xff" * len(rb.decode(epk["x"])))
        elif k == "epk-other-curve":
            other = fault["jwk"]
            ent[i]["header"]["epk"] = other
        elif k == "epk-add-d":
            epk["d"] = epk["x"]
        elif k == "epk-drop-y":
            if "y" not in epk:
                return None
            del epk["y"]
        elif k == "epk-kty":
            epk["kty"] = "OKP" if epk["kty"] == "EC" else "EC"
        return t
    if k == "rcpt-corrupt-one":
        ent = _recipient_entries(token)
        i = fault["i"]
        if not isinstance(token, dict) or i >= len(ent) or "encrypted_key" not in ent[i]:
            return None
        t = copy.deepcopy(token)
        e = _recipient_entries(t)[i]
        b = bytearray(rb.decode(e["encrypted_key"]))
        b[fault["byte"] % len(b)] ^= 1
        e["encrypted_key"] = rb.encode(bytes(b))
        return t
    if k == "rcpt-all-bad":
        if not isinstance(token, dict):
            return None
        t = copy.deepcopy(token)
        for e in _recipient_entries(t):
            if "encrypted_key" in e:
                b = bytearray(rb.decode(e["encrypted_key"]))
                b[0] ^= 1
                e["encrypted_key"] = rb.encode(bytes(b))
            else:
                return None
        return t
    if k == "rcpt-foreign-cek":
        # recipient i's encrypted key taken from token2 (same recipient key, different CEK)
        if not isinstance(token, dict) or "recipients" not in token or len(token["recipients"]) < 2:
            return None
        t = copy.deepcopy(token)
        i = fault["i"] % len(t["recipients"])
        t["recipients"][i] = copy.deepcopy(token2["recipients"][i])
        return t
    if k == "rcpt-drop":
        if not isinstance(token, dict) or "recipients" not in token or len(token["recipients"]) < 2:
            return None
        t = copy.deepcopy(token)
        del t["recipients"][fault["i"] % len(t["recipients"])]
        return t
    if k == "rcpt-empty":
        if not isinstance(token, dict) or "recipients" not in token:
            return None
        return dict(copy.deepcopy(token), recipients=[])
    if k == "rcpt-add-unknown-kid":
        # one more recipient entry (first or last) whose kid names nobody the consumer knows: that recipient does not yield the key
        if not isinstance(token, dict) or "recipients" not in token or len(token["recipients"]) < 2:
            return None
        t = copy.deepcopy(token)
        src = copy.deepcopy(t["recipients"][fault["i"] % len(t["recipients"])])
        hdr = dict(src.get("header") or {})
        hdr["kid"] = "nobody-the-consumer-knows"
        if fault.get("dir"):
            hdr["alg"] = "dir"
        src["header"] = hdr
        if fault["where"] == "first":
            t["recipients"].insert(0, src)
        else:
            t["recipients"].append(src)
        return t
    return None


def enumerate_faults(token, plan, case):
    algs = [r["alg"] for r in plan["recipients"]]
    seg_list = _segs(token, plan)
    # structural faults first: they are few and must not be cut off by the time budget
    if algs[0] in rjwe.DIRECT:
        for v in ([0], [1, 2, 3], list(range(16))):
            yield {"kind": "nonempty-ek", "value": v}
    yield {"kind": "add-empty-aad", "value": [97]}
    yield {"kind": "drop-aad"}
    for i, r in enumerate(plan["recipients"]):
        if r["alg"] in rjwe.ECDH_ES or r["alg"] in rjwe.ECDH_1PU:
            for m in ("x", "y"):
                for bit in case["sample_bits"][:6]:
                    yield {"kind": "epk-flip", "i": i, "member": m, "bit": bit % 256}
            for k in ("epk-zero", "epk-big-x", "epk-add-d", "epk-drop-y", "epk-kty"):
                yield {"kind": k, "i": i}
            key = gk.key_from_record(r["key"])
            oc = {"P-256": "P-384", "P-384": "P-521", "P-521": "P-256", "secp256k1": "P-256", "X25519": "X448", "X448": "X25519"}[key["crv"]]
            ok = gk.ec_from_d(oc, 12345) if key["kty"] == "EC" else gk.okp_from_seed(oc, bytes(range(1, 57))[: (32 if oc == "X25519" else 56)])
            yield {"kind": "epk-other-curve", "i": i, "jwk": rk.export_jwk(ok, private=False)}
    n = len(plan["recipients"])
    if n > 1:
        for i in range(n):
            yield {"kind": "rcpt-corrupt-one", "i": i, "byte": case["sample_bits"][0]}
            yield {"kind": "rcpt-foreign-cek", "i": i}
            yield {"kind": "rcpt-drop", "i": i}
            yield {"kind": "rcpt-add-unknown-kid", "i": i, "where": ("first", "last")[i % 2], "dir": bool(i // 2 % 2)}
    yield {"kind": "rcpt-all-bad"}
    yield {"kind": "rcpt-empty"}
    if not isinstance(token, str):
        # members that only count when integrity protected, planted in the unprotected headers
        other_enc = "A256GCM" if plan["enc"] != "A256GCM" else "A128GCM"
        for where in ("unprotected", "recipient"):
            for name, value in (("zip", "DEF"), ("enc", other_enc), ("alg", "dir")):
                yield {"kind": "unprot-set", "where": where, "name": name, "value": value}
    # two passes over the segments: length faults and splices first, the (many) bit flips last
    for flips in (False, True):
      for addr, kind in seg_list:
        try:
            data = rb.decode(_get(token, addr))
        except ValueError:
            continue
        nbits = len(data) * 8
        bits = range(nbits)
        if kind == "encrypted_key":
            idx = addr[1] if addr[0] == "recipients" else 0
            if algs[idx] in EXPENSIVE and nbits > 64:
                bits = sorted({b % nbits for b in case["sample_bits"]})
        if flips:
            for bit in bits:
                yield {"kind": "flip", "addr": list(addr), "seg": kind, "bit": bit}
            continue
        if kind in ("tag", "iv"):
            for n in range(len(data)):
                yield {"kind": "truncate", "addr": list(addr), "seg": kind, "n": n}
            if kind == "iv":
                for n in (1, 4, 8):
                    yield {"kind": "truncate-front", "addr": list(addr), "seg": kind, "n": n}
            for tail in ([0], [0, 0, 0, 0], list(data)):
                yield {"kind": "extend", "addr": list(addr), "seg": kind, "tail": tail}
        elif kind in ("ciphertext", "aad", "encrypted_key"):
            yield {"kind": "truncate", "addr": list(addr), "seg": kind, "n": max(0, len(data) - 1)}
            yield {"kind": "truncate", "addr": list(addr), "seg": kind, "n": 0}
            yield {"kind": "extend", "addr": list(addr), "seg": kind, "tail": [0]}
            if kind == "encrypted_key":
                for n in (1, 2):
                    yield {"kind": "truncate-front", "addr": list(addr), "seg": kind, "n": n}
            if kind == "ciphertext":
                yield {"kind": "truncate", "addr": list(addr), "seg": kind, "n": max(0, len(data) - 16)}
                yield {"kind": "extend", "addr": list(addr), "seg": kind, "tail": [16] * 16}
        yield {"kind": "splice", "addr": list(addr), "seg": kind}
    # paired faults across segment boundaries (iv|ciphertext, ciphertext|tag)
    addrs = {kind: addr for addr, kind in seg_list}
    for a, b in (("ciphertext", "tag"), ("iv", "ciphertext")):
        if a in addrs and b in addrs:
            for n in (1, 2, 4, 8, 12, 15, 16):
                for d in ("tail-to-head", "head-to-tail"):
                    yield {"kind": "shift-boundary", "from": list(addrs[a]), "to": list(addrs[b]), "n": n, "dir": d, "seg": f"{a}|{b}"}
    for i, s in enumerate(case["respell_seeds"]):
        yield {"kind": "respell", "style": ["whitespace", "reordered", "escaped", "mixed", "whitespace", "mixed"][i], "seed": s}


def fault_class(fault) -> str:
    k = fault["kind"]
    if k == "flip":
        return "flip"
    if k in ("truncate", "truncate-front", "extend", "nonempty-ek", "set", "shift-boundary"):
        return "length"
    if k.startswith("epk"):
        return "epk"
    if k.startswith("rcpt"):
        return "recipients"
    return k.split("-")[0]


def finding_key(plan, fault, outcome):
    k = fault["kind"]
    seg = fault.get("seg", "")
    fam = ""
    if seg in ("tag", "iv", "ciphertext", "aad"):
        fam = plan["enc"].split("-")[0][-3:] if "CBC" in plan["enc"] else ("GCM" if "GCM" in plan["enc"] else plan["enc"])
    elif seg == "encrypted_key" or k in ("nonempty-ek",) or k.startswith("epk"):
        fam = plan["recipients"][0]["alg"] if len(plan["recipients"]) == 1 else "multi"
    return "C02:" + ":".join(x for x in (k, seg, fam, plan["ser"], outcome) if x)


# ------------------------------------------------------------------ minting
def mint(case):
    plan = copy.deepcopy(case["plan"])
    plan["plaintext_hex"] = case["pt"]
    if plan["zip"]:
        pass
    if case["minter"] == "ref":
        token, _ = jp.ref_encrypt(plan, case["seed"], tuple(case["spelling"]), additions_in_protected=case["in_protected"],
                                  iv_zero_prefix=4 if case["seed"] % 3 == 0 else 0)
        if len(plan["recipients"]) == 1 and plan["recipients"][0]["alg"].startswith("RSA") and case["seed"] % 2 == 0:
            # one RSA ciphertext in 256 starts with a zero octet: look for such a token (the randomness of the reference derives from the seed)
            for i in range(1, 1500):
                t, _ = jp.ref_encrypt(plan, case["seed"] + 1000003 * i, tuple(case["spelling"]), additions_in_protected=case["in_protected"])
                ek = t.split(".")[1] if isinstance(t, str) else (t.get("encrypted_key") or t["recipients"][0].get("encrypted_key"))
                if rb.decode(ek)[0] == 0:
                    token = t
                    break
    else:
        token = jp.jose_encrypt(plan, "attached")
    plan2 = copy.deepcopy(plan)
    plan2["plaintext_hex"] = case["pt2"]
    token2, _ = jp.ref_encrypt(plan2, case["seed"] + 1, ("canonical", 0), additions_in_protected=case["in_protected"])
    return plan, token, token2


def other_key(rec, seed):
    k = gk.key_from_record(rec["key"])
    h = hashlib.sha512(str(seed).encode()).digest()
    if k["kty"] == "oct":
        nk = (h + h)[:len(k["k"])]
        return {"kty": "oct", "k": nk if nk != k["k"] else bytes([nk[0] ^ 1]) + nk[1:]}
    if k["kty"] == "RSA":
        pool = [p for p in gk.rsa_pool() if p["n"] != k["n"] and p["bits"] >= 2048]
        p = pool[seed % len(pool)]
        return {a: b for a, b in p.items() if a != "bits"}
    if k["kty"] == "EC":
        d = int.from_bytes(h, "big") % (CURVES[k["crv"]].n - 1) + 1
        return gk.ec_from_d(k["crv"], d if d != k["d"] else d + 1)
    from ref.okp import OKP_SIZES
    s = (h + h)[:OKP_SIZES[k["crv"]]]
    return gk.okp_from_seed(k["crv"], s)


def forged_invalid_epk(plan, case, kind):
    """Reference-minted ECDH-ES direct token whose epk is an invalid point but whose CEK matches what an implementation
    that skips point validation would derive."""
    r = plan["recipients"][0]
    key = gk.key_from_record(r["key"])
    if len(plan["recipients"]) != 1 or r["alg"] != "ECDH-ES":
        return None
    enc = plan["enc"]
    hdr = {**plan["protected"], **(r["header"] or {})}
    if key["kty"] == "EC":
        c = CURVES[key["crv"]]
        if kind == "offcurve":
            # a point of the same field that is NOT on the curve; Z computed with the curve's (b-independent) formulas
            x = (case["seed"] % (c.p - 3)) + 2
            y = (case["seed"] // 7 % (c.p - 3)) + 2
            if c.on_curve(x, y):
                y += 1
            S = c.mul(key["d"], (x, y))
            if S is None:
                return None
            z = S[0].to_bytes(c.size, "big")
            epk = {"kty": "EC", "crv": key["crv"], "x": rb.encode(x.to_bytes(c.size, "big")), "y": rb.encode(y.to_bytes(c.size, "big"))}
        else:
            return None
    else:
        if key["crv"] not in ("X25519", "X448") or kind != "smallorder":
            return None
        n = 32 if key["crv"] == "X25519" else 56
        u = bytes(n) if case["seed"] % 2 else (1).to_bytes(n, "little")
        z = bytes(n)
        epk = {"kty": "OKP", "crv": key["crv"], "x": rb.encode(u)}
    cek = rjwe.concat_kdf(z, rjwe.ENCS[enc][0], enc, rjwe._hdr_octets(hdr, "apu"), rjwe._hdr_octets(hdr, "apv"))
    protected = {**plan["protected"], "epk": epk}
    if plan["ser"] == "compact":
        protected.update(r["header"] or {})
    ptext = spell(protected, "canonical", 0)
    pseg = rb.encode(ptext)
    aad = None if plan["aad_hex"] is None else bytes.fromhex(plan["aad_hex"])
    aad_full = pseg.encode() + (b"." + rb.encode(aad).encode() if aad else b"")
    pt = bytes.fromhex(plan["plaintext_hex"])
    m = rjwe.deflate(pt) if plan["zip"] else pt
    iv = hashlib.sha256(b"iv%d" % case["seed"]).digest()[: rjwe.ENCS[enc][1]] if rjwe.ENCS[enc][1] <= 32 else None
    ct, tag = rjwe.content_encrypt(enc, cek, iv, aad_full, m)
    parts = {"protected": pseg, "iv": rb.encode(iv), "ciphertext": rb.encode(ct), "tag": rb.encode(tag), "encrypted_keys": [""],
             "aad": rb.encode(aad) if aad else None}
    if plan["ser"] == "compact":
        return rjwe.to_compact(parts)
    h = dict(r["header"] or {})
    return rjwe.to_json(parts, [h or None], plan["unprotected"], plan["ser"] == "flattened")


def run_fault(case, plan, token, token2, fault, entry):
    _OTHER[0] = token2
    if fault["kind"] == "base":
        return judge(entry, token, plan)
    if fault["kind"] == "keysub":
        p2 = copy.deepcopy(plan)
        i = fault["i"] % len(p2["recipients"])
        p2["recipients"][i]["key"] = gk.key_to_record(other_key(p2["recipients"][i], case["seed"] + fault.get("variant", 0)))
        return judge(entry, token, p2)
    if fault["kind"] == "keysub-blanks":
        # the consumer's secret differs from the producer's by blanks / line breaks at its ends (handed over as raw octets or text)
        from joserfc import jwe
        from joserfc.jwk import OctKey
        if len(plan["recipients"]) != 1 or plan["recipients"][0]["key"]["kty"] != "oct" or entry not in ("jwe.decrypt_compact", "jwe.decrypt_json"):
            return "n/a"
        k = gk.key_from_record(plan["recipients"][0]["key"])["k"]
        raw = [b" " + k, k + b"\n", b"\r\n" + k + b" ", k + b"\t"][fault["variant"] % 4]
        with warnings.catch_warnings():
            warnings.simplefilter("ignore")
            try:
                ko = OctKey.import_key(raw)
                tok = copy.deepcopy(token)
                got = (jwe.decrypt_compact if entry == "jwe.decrypt_compact" else jwe.decrypt_json)(tok, ko, algorithms=jp.ALL_NAMES).plaintext
            except Exception:
                return None
        return ("returned-under-another-key", f"{entry} returned {str(got)[:40]!r} under a secret that is the producer's plus blanks at its ends ({raw[:3]!r}...{raw[-3:]!r})")
    if fault["kind"] == "sendersub":
        p2 = copy.deepcopy(plan)
        p2["sender"] = gk.key_to_record(other_key({"key": p2["sender"]}, case["seed"] + 7))
        return judge(entry, token, p2)
    if fault["kind"] == "forged-epk":
        ft = forged_invalid_epk(plan, case, fault["variant"])
        if ft is None:
            return "n/a"
        return judge(entry, ft, plan)
    ft = apply_fault(token, token2, fault, plan)
    if ft is None:
        return "n/a"
    if fault["kind"] == "unprot-set":
        # the unprotected headers are not authenticated: whatever is planted there, a returned plaintext is the one that was encrypted
        try:
            got, is_claims = call_entry(entry, ft, plan)
        except Exception:
            return None
        want = bytes.fromhex(plan["plaintext_hex"])
        if is_claims:
            try:
                want = json.loads(want)
            except ValueError:
                return ("claims-from-non-json", f"claims {got!r}")
        if got != want:
            return ("unauthenticated-member-changes-plaintext", f"{entry}: with {fault['name']}={fault['value']!r} planted in the {fault['where']} header "
                                                                f"{str(got)[:60]!r} comes back; the encrypted plaintext is {str(want)[:60]!r}")
        return "ok"
    return judge(entry, ft, plan)


def _record(case, fault, entry, token, token2):
    return {"case": case, "fault": fault, "entry": entry, "token": token, "token2": token2}


def big_zip_case(c) -> dict:
    """An authentic zip=DEF token whose (highly repetitive) plaintext lies around the decompression limit: whatever comes back is
    exactly what was encrypted - never a shortened version of it."""
    from joserfc import jwe
    from gens.jose import jkey
    n, enc, ser = c["n"], c["enc"], c["ser"]
    pt = (b"h" if c["fill"] == "h" else b'{"k":1},') * (n // (1 if c["fill"] == "h" else 8) + 1)
    pt = pt[:n]
    ref = {"kty": "oct", "k": bytes(range(rjwe.ENCS[enc][0]))}
    plan = {"ser": ser, "enc": enc, "zip": "DEF", "plaintext_hex": pt.hex(), "aad_hex": None, "protected": {"alg": "dir", "enc": enc, "zip": "DEF"}, "unprotected": None,
            "recipients": [{"alg": "dir", "key": gk.key_to_record(ref), "header": None, "kid": None}], "sender": None, "place": "protected"}
    tok, _ = jp.ref_encrypt(plan, 5, ("canonical", 0))
    k = jkey(ref, "dict", True)
    try:
        got = (jwe.decrypt_compact(tok, k, algorithms=jp.ALL_NAMES) if isinstance(tok, str) else jwe.decrypt_json(tok, k, algorithms=jp.ALL_NAMES)).plaintext
    except Exception:
        return {}
    if got != pt:
        return {f"C02:zip:returned-other-plaintext:{'shorter' if len(got) < len(pt) else 'other'}":
                f"decrypting an authentic zip=DEF token of {n} octets ({enc}, {ser}) returned {len(got)} octets that are not the plaintext"}
    return {}


def run_shard(ctx, spec):
    from gens.jose import setup_joserfc
    setup_joserfc()
    selftest.run()
    if spec["i"] == 0:
        for n in (255999, 256000, 256001, 256002, 256100, 256200, 256257, 256258, 257000):
            for fill in ("h", "json"):
                c = {"kind": "big-zip", "n": n, "fill": fill, "enc": ["A128GCM", "A128CBC-HS256", "C20P"][n % 3], "ser": ["compact", "flattened"][n % 2]}
                for k_, w in big_zip_case(c).items():
                    ctx.finding(k_, w, c)
                ctx.case(("big-zip", n, fill), cls="zip:near-limit")

    def body(case):
        try:
            plan, token, token2 = mint(case)
        except Exception as e:
            raise HarnessError(f"cannot mint base token: {e!r} {case!r}")
        pt = bytes.fromhex(plan["plaintext_hex"])
        algs = [r["alg"] for r in plan["recipients"]]
        label = (tuple(algs), plan["enc"], plan["zip"], plan["ser"], case["minter"])
        ents = entries_for(plan, pt)
        for e in ents:
            r = run_fault(case, plan, token, token2, {"kind": "base"}, e)
            if e.endswith(":any") and r is None and "RSA1_5" in algs:
                ctx.dontcare("any-recipient with RSA1_5 implicit rejection")
                continue
            ctx.case(("base", label, e), cls="base:accepted" if r == "ok" else "base:other")
            if r is None:
                ctx.finding(f"C02:base-token-rejected:{plan['ser']}:{case['minter']}:{e}", f"untouched token ({algs}, {plan['enc']}) is refused by {e}",
                            _record(case, {"kind": "base"}, e, token, token2))
            elif r not in ("ok", "dont_care"):
                ctx.finding(f"C02:base:{plan['ser']}:{r[0]}", r[1], _record(case, {"kind": "base"}, e, token, token2))
        entry = ents[case["seed"] % len(ents)]
        n = 0
        for fault in enumerate_faults(token, plan, case):
            if ctx.expired():
                break
            targets = ents if fault_class(fault) in ("recipients", "respell", "epk") else [entry]
            for e in targets:
                r = run_fault(case, plan, token, token2, fault, e)
                if r == "n/a":
                    continue
                if r == "dont_care":
                    ctx.dontcare("any-recipient different CEKs")
                    continue
                n += 1
                fc = fault_class(fault)
                ctx.case((label, e, fault), cls=[f"fault:{fc}", f"outcome:{'rejected' if r is None else 'accepted-valid' if r == 'ok' else 'VIOLATION'}"]
                         + ([f"still-valid-after:{fault['kind']}:{fault.get('seg', '')}"] if r == "ok" else []),
                         sample={"algs": algs, "enc": plan["enc"], "zip": plan["zip"], "ser": plan["ser"], "minter": case["minter"], "entry": e,
                                 "fault": fault, "outcome": "rejected" if r is None else r if r == "ok" else r[0]} if n % 173 == 1 else None)
                if r not in (None, "ok"):
                    ctx.finding(finding_key(plan, fault, r[0]), r[1], _record(case, fault, e, token, token2))
        for i in range(len(plan["recipients"])):
            for variant in (0, 1):
                fault = {"kind": "keysub", "i": i, "variant": variant}
                for e in ents:
                    if e.endswith(":any") or len(plan["recipients"]) > 1 and e == "jwe.decrypt_json" and False:
                        continue
                    r = run_fault(case, plan, token, token2, fault, e)
                    if r == "dont_care":
                        continue
                    ctx.case((label, e, fault), cls=["fault:keysub"])
                    if r == "ok":
                        raise HarnessError(f"reference accepts a token under a substituted key {case!r}")
                    if r is not None:
                        ctx.finding(f"C02:keysub:{plan['ser']}:{algs[i]}:{r[0]}", r[1], _record(case, fault, e, token, token2))
        for v in range(4):
            for e in ents:
                fault = {"kind": "keysub-blanks", "variant": v}
                r = run_fault(case, plan, token, token2, fault, e)
                if r == "n/a":
                    continue
                ctx.case((label, e, "keysub-blanks", v), cls=["fault:keysub", "fault:keysub-blanks"])
                if r is not None:
                    ctx.finding(f"C02:keysub-blanks:{plan['ser']}:{algs[0]}:{r[0]}", r[1], _record(case, fault, e, token, token2))
        if plan["sender"]:
            for e in ents:
                r = run_fault(case, plan, token, token2, {"kind": "sendersub"}, e)
                ctx.case((label, e, "sendersub"), cls=["fault:keysub", "fault:sendersub"])
                if r == "ok":
                    if all(a in rjwe.ECDH_1PU for a in algs) or not e.endswith(":any"):
                        raise HarnessError(f"reference accepts a token under a substituted sender key {case!r}")
                    continue  # another recipient that does not use the sender key decrypts legitimately
                if r not in (None, "dont_care"):
                    ctx.finding(f"C02:sendersub:{plan['ser']}:{algs[0]}:{r[0]}", r[1], _record(case, {"kind": "sendersub"}, e, token, token2))
        for variant in ("offcurve", "smallorder"):
            for e in ents[:1]:
                fault = {"kind": "forged-epk", "variant": variant}
                r = run_fault(case, plan, token, token2, fault, e)
                if r == "n/a":
                    continue
                ctx.case((label, e, fault), cls=["fault:epk", f"fault:forged-epk:{variant}"])
                if r not in (None, "dont_care"):
                    why = r[1] if r != "ok" else "reference accepted (harness problem)"
                    if r == "ok":
                        raise HarnessError(f"reference accepts an invalid epk point {case!r}")
                    ctx.finding(f"C02:forged-epk:{variant}:{plan['recipients'][0]['key'].get('crv')}:{r[0]}", why, _record(case, fault, e, token, token2))
    drive(ctx, "faults", case_strategy, body, 30 if ctx.tier == "quick" else 500)


def replay(rec) -> dict:
    if rec.get("kind") == "big-zip":
        from gens.jose import setup_joserfc
        setup_joserfc()
        return big_zip_case(rec)
    from gens.jose import setup_joserfc
    setup_joserfc()
    case, fault, entry = rec["case"], rec["fault"], rec["entry"]
    plan = copy.deepcopy(case["plan"])
    plan["plaintext_hex"] = case["pt"]
    if "token" in rec:
        token, token2 = rec["token"], rec.get("token2", rec["token"])
    else:
        plan, token, token2 = mint(case)
    algs = [r["alg"] for r in plan["recipients"]]
    r = run_fault(case, plan, token, token2, fault, entry)
    if fault["kind"] == "base":
        if r is None:
            return {f"C02:base-token-rejected:{plan['ser']}:{case['minter']}:{entry}": "untouched token refused"}
        if r not in ("ok", "dont_care", "n/a"):
            return {f"C02:base:{plan['ser']}:{r[0]}": r[1]}
        return {}
    if r in (None, "ok", "n/a", "dont_care"):
        return {}
    if fault["kind"] == "keysub":
        return {f"C02:keysub:{plan['ser']}:{algs[fault['i'] % len(algs)]}:{r[0]}": r[1]}
    if fault["kind"] == "keysub-blanks":
        return {f"C02:keysub-blanks:{plan['ser']}:{algs[0]}:{r[0]}": r[1]}
    if fault["kind"] == "sendersub":
        return {f"C02:sendersub:{plan['ser']}:{algs[0]}:{r[0]}": r[1]}
    if fault["kind"] == "forged-epk":
        return {f"C02:forged-epk:{fault['variant']}:{plan['recipients'][0]['key'].get('crv')}:{r[0]}": r[1]}
    return {finding_key(plan, fault, r[0]): r[1]}
