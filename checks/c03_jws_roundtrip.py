"""C03 - JWS sign-then-verify round trip for every algorithm, serialization, key form and header placement."""
from __future__ import annotations
import copy

from hypothesis import strategies as st

from harness.hyp import drive
from gens import jwsplan as jp, keys as gk
from gens.jose import exc_key, KEYFORMS
from ref import keys as rk, b64 as rb

LEVEL = "exploration"
RULE = ("Hypothesis draws a signing plan (alg in 14 algorithms, key built from generated material incl. special scalars, "
        "serialization compact/flattened/general(1-3 members), b64 absent/true/false, header members split between protected "
        "and unprotected, payload class) x key mode (key, key set with/without kid, callable) x key import form "
        "(JWK dict, registry, PEM, DER) x role metadata (none / signer key_ops [sign] and verifier key_ops [verify] / use sig); optionally after another registry with required caller parameters was used in the process; joserfc signs, joserfc verifies with the public form; oracle = exact payload octets "
        "and header members (+kid). non-trivial: every case (a real signature is produced); distinct = digest of "
        "(plan label, key mode, key forms, key class).")
ASSUMPTIONS = ["keys are built with `cryptography` number objects from generated scalars (not with joserfc)",
               "b64=false with a payload that is not valid UTF-8 is DONT_CARE for production in the JSON serializations (a JSON string cannot carry it); the compact form must produce the detached token"]
BUDGET_S = {"quick": 85, "thorough": 1200}
FLOORS = {"quick": {"ser:compact": 500, "ser:flattened": 500, "ser:general": 500, "b64:False": 200},
          "thorough": {"ser:compact": 2000, "ser:general": 2000, "b64:False": 800}}

case_strategy = st.fixed_dictionaries({
    "plan": jp.plans(),
    "keymode": st.sampled_from(jp.KEYMODES),
    "form_sign": st.sampled_from(KEYFORMS),
    "form_verify": st.sampled_from(KEYFORMS),
    # another part of the application has its own registry with required header parameters (ACME style) and used it before
    "prelude": st.booleans(),
})


def cells():
    """The finite configuration space, enumerated completely in the thorough tier (data per cell is generated)."""
    for alg in gk.JWS_ALGS:
        for ser in jp.SERS:
            for b64 in ([None] if ser == "general" else [None, True, False]):
                for keymode in jp.KEYMODES:
                    yield (alg, ser, b64, keymode)


def shards(tier):
    n = 16
    out = [(f"rt{i:02d}", {"i": i}) for i in range(n)]
    if tier == "thorough":
        out += [(f"cells{i:02d}", {"part": "cells", "i": i, "n": 16}) for i in range(16)]
    return out


def _hdr_eq(got, given, allow_kid, kid_expected, where, f, tag):
    got = dict(got or {})
    given = dict(given or {})
    if "kid" in got and "kid" not in given:
        if not allow_kid:
            f[f"C03:unexpected-kid:{tag}"] = f"{where} header gained kid {got['kid']!r} although a plain key was given"
        elif got["kid"] != kid_expected:
            f[f"C03:wrong-kid-recorded:{tag}"] = f"{where} kid {got['kid']!r} != key's kid {kid_expected!r}"
        del got["kid"]
    if got != given:
        f[f"C03:header-members-differ:{tag}"] = f"{where} header after round trip {got!r} != given {given!r}"


def run_case(case) -> dict:
    """Returns findings {key: what}; {} = fine; {'dont_care': ...} marks DONT_CARE."""
    from joserfc import jws
    if case.get("prelude"):
        from joserfc.registry import HeaderParameter
        from joserfc.jwk import OctKey
        reg = jws.JWSRegistry(header_registry={"nonce": HeaderParameter("replay nonce", "str", True), "url": HeaderParameter("target url", "str", True)},
                              algorithms=["HS256"])
        k0 = OctKey.import_key({"kty": "oct", "k": "AAAAAAAAAAAAAAAAAAAAAAAAAAAAAAAAAAAAAAAAAAA"})
        t0 = jws.serialize_compact({"alg": "HS256", "nonce": "n-1", "url": "https://example.com/acme"}, b"{}", k0, registry=reg)
        jws.deserialize_compact(t0, k0, registry=reg)
    plan, keymode = case["plan"], case["keymode"]
    payload = bytes.fromhex(plan["payload_hex"])
    ser = plan["ser"]
    tag = f"{ser}:b64={plan['b64']}"
    f: dict = {}
    given = copy.deepcopy([(m["protected"], m["header"]) for m in plan["members"]])
    try:
        token, handed = jp.jose_sign(plan, keymode, case.get("form_sign", "dict"))
    except Exception as e:
        if plan["b64"] is False and jp.payload_class(payload) == "non-utf8" and ser != "compact":
            # a JSON string cannot carry those octets; the compact form can (detached, RFC 7797 section 5.2)
            return {"dont_care": "b64=false with non-UTF-8 payload in a JSON serialization"}
        return {f"C03:sign-raises:{tag}:{exc_key(e)}": f"signing raised {type(e).__name__}: {e}"}
    # --- verify with the public form
    try:
        obj = jp.jose_verify(token, plan, keymode, case.get("form_verify", "dict"), private=False, via_rfc7797=len(plan["payload_hex"]) % 4 == 2)
    except Exception as e:
        return {f"C03:verify-raises:{tag}:{exc_key(e)}": f"token produced by joserfc does not verify: {type(e).__name__}: {e}"}
    if obj.payload != payload:
        f[f"C03:payload-differs:{tag}"] = f"payload after round trip {obj.payload[:40]!r}... != original {payload[:40]!r}"
    kids = jp._kids(plan)
    multi = len(plan["members"]) > 1
    for i, (p_given, h_given) in enumerate(given):
        # the kid we placed ourselves in the header for keyset_kid modes is part of "given"
        p_h, h_h = jp._with_kid(plan, keymode)[i]
        nokid_mode = keymode in jp.NOKID_MODES and not multi
        if ser == "compact":
            _hdr_eq(obj.protected, p_h, nokid_mode, kids[i], "protected", f, tag)
            if nokid_mode and "kid" not in obj.protected:
                f[f"C03:kid-not-recorded:{tag}"] = "key picked from a key set but no kid in the protected header"
        else:
            mem = obj.members[i]
            _hdr_eq(mem.protected, p_h, False, kids[i], f"member {i} protected", f, tag)
            _hdr_eq(mem.header, h_h, nokid_mode, kids[i], f"member {i} unprotected", f, tag)
            if nokid_mode and "kid" not in (mem.header or {}):
                f[f"C03:kid-not-recorded:{tag}"] = "key picked from a key set but no kid in the unprotected header"
            want = {**(p_h or {}), **(h_h or {})}
            got = mem.headers()
            got = {k: v for k, v in got.items() if not (k == "kid" and "kid" not in want)}
            if got != want:
                f[f"C03:merged-headers-differ:{tag}"] = f"member {i} headers() {got!r} != {want!r}"
    # --- RFC 7797 attached compact tokens verify without handing the payload over
    if ser == "compact" and plan["b64"] is False and ".." not in token:
        try:
            o2 = jp.jose_verify(token, plan, keymode, case.get("form_verify", "dict"), private=False, give_payload=False)
            if o2.payload != payload:
                f[f"C03:attached-unencoded-payload-differs:{tag}"] = f"{o2.payload!r} != {payload!r}"
        except Exception as e:
            f[f"C03:attached-unencoded-verify-raises:{tag}:{exc_key(e)}"] = f"{type(e).__name__}: {e}"
    # --- a payload whose base64url text also occurs inside the header segment: detaching removes the payload segment, nothing else
    if ser == "compact" and plan["b64"] is None and not f:
        try:
            hseg = token.split(".")[0]
            k0 = 4 * (len(payload) % max(1, len(hseg) // 4 - 1))
            p2 = dict(plan, payload_hex=rb.decode(hseg[k0:k0 + 4]).hex())
            t2, _ = jp.jose_sign(p2, keymode, case.get("form_sign", "dict"))
            d2 = jws.detach_content(t2)
            a2, b2 = t2.split("."), d2.split(".")
            if len(b2) != 3 or b2[0] != a2[0] or b2[2] != a2[2] or b2[1] != "":
                f["C03:detach-alters-token:compact:payload-text-inside-header"] = f"detach_content({t2[:70]}...) = {d2[:70]}..."
        except Exception as e:
            f[f"C03:detach-raises:compact:{exc_key(e)}"] = f"{type(e).__name__}: {e}"
    # --- detach_content (appendix F)
    if plan["b64"] is None:
        try:
            det = jws.detach_content(copy.deepcopy(token))
            if ser == "compact":
                a, b = token.split("."), det.split(".")
                if len(b) != 3 or b[0] != a[0] or b[2] != a[2] or b[1] != "":
                    f["C03:detach-alters-token:compact"] = f"detach_content({token[:60]}...) = {det[:60]}..."
                restored = ".".join([b[0], a[1], b[2]]) if len(b) == 3 else det
                detached_ok = None
                try:
                    jp.jose_verify(det, plan, keymode, case.get("form_verify", "dict"))
                    detached_ok = True
                except Exception:
                    detached_ok = False
                if detached_ok and payload:
                    f["C03:detached-token-verifies:compact"] = "a token without its payload verified"
            else:
                if "payload" in det or any(det.get(k) != token.get(k) for k in token if k != "payload"):
                    f[f"C03:detach-alters-token:{ser}"] = f"detach_content changed more than the payload: {det!r}"
                restored = dict(det, payload=token["payload"])
            o3 = jp.jose_verify(restored, plan, keymode, case.get("form_verify", "dict"))
            if o3.payload != payload:
                f[f"C03:restored-payload-differs:{ser}"] = "payload differs after detaching and restoring"
        except Exception as e:
            f[f"C03:detach-restore-raises:{ser}:{exc_key(e)}"] = f"{type(e).__name__}: {e}"
    return f


def run_shard(ctx, spec):
    from gens.jose import setup_joserfc
    setup_joserfc()

    def body(case):
        plan = case["plan"]
        f = run_case(case)
        if "dont_care" in f:
            ctx.dontcare(f["dont_care"])
            return
        kc = tuple(gk.describe(gk.key_from_record(m["key"])) for m in plan["members"])
        ctx.case((jp.plan_label(plan), case["keymode"], case.get("form_sign", "dict"), case.get("form_verify", "dict"), kc),
                 cls=[f"ser:{plan['ser']}", f"b64:{plan['b64']}", f"keymode:{case['keymode']}", f"form:{case['form_sign']}",
                      f"payload:{jp.payload_class(bytes.fromhex(plan['payload_hex']))}"]
                 + [f"alg:{m['alg']}" for m in plan["members"]] + [f"key:{k}" for k in kc if "short" in k or "lead0" in k],
                 sample={"ser": plan["ser"], "b64": plan["b64"], "algs": [m["alg"] for m in plan["members"]],
                         "protected": [m["protected"] for m in plan["members"]], "header": [m["header"] for m in plan["members"]],
                         "payload_hex": plan["payload_hex"][:60], "keymode": case["keymode"], "forms": [case.get("form_sign", "dict"), case.get("form_verify", "dict")]})
        for k, w in f.items():
            ctx.finding(k, w, case)
    if spec.get("part") == "cells":
        for j, (alg, ser, b64, keymode) in enumerate(cells()):
            if j % spec["n"] != spec["i"] or ctx.expired():
                continue
            strat = st.fixed_dictionaries({"plan": jp.plans(sers=(ser,), algs=[alg], b64_choices=[b64], max_members=2), "keymode": st.just(keymode),
                                           "form_sign": st.sampled_from(KEYFORMS), "form_verify": st.sampled_from(KEYFORMS)})
            drive(ctx, f"cell-{alg}-{ser}-{b64}-{keymode}", strat, body, 10)
            ctx.count("cells-enumerated")
        return
    drive(ctx, "rt", case_strategy, body, 400 if ctx.tier == "quick" else 4000)


def replay(rec) -> dict:
    from gens.jose import setup_joserfc
    setup_joserfc()
    f = run_case(rec)
    f.pop("dont_care", None)
    return f
