"""C04 - JWE encrypt-then-decrypt round trip for every alg, enc, zip and serialization; forbidden combinations refused."""
from __future__ import annotations
import copy

from hypothesis import strategies as st

from harness.hyp import drive
from gens import jweplan as jp, keys as gk
from gens.jose import exc_key, KEYFORMS
from ref import jwe as rjwe

LEVEL = "exploration"
RULE = ("Hypothesis draws an encryption plan (21 alg values x 8 enc values x zip absent/DEF x EC P-256/P-384/P-521/secp256k1 and "
        "X25519/X448 x compact/flattened/general with 1-4 recipients of mixed algorithms x AAD x apu/apv x alg placement in "
        "protected/unprotected/per-recipient header x several recipients without a header of their own x role-specific key_ops/use on the two sides x plaintext class (with zip=DEF also random / zero / text plaintexts 0-200 octets below the 256000 limit)) x key hand-over (attached, key set, callable) x key import "
        "form; joserfc encrypts and decrypts (all recipients via key set, and each single recipient with any-recipient validation); "
        "oracle: exact plaintext octets and header members in their positions (extras only from kid/epk/iv/tag/p2s/p2c/skid). "
        "Forbidden combinations (direct mode with several recipients, ECDH-1PU+KW with non-CBC enc) must be refused at encryption "
        "time. For the JSON serializations the JWE object is also encrypted twice (template reuse), the second output is judged. non-trivial: every case; distinct = plan label x key mode x form.")
ASSUMPTIONS = ["keys are built with `cryptography` number objects from generated material",
               "draft algorithms (ECDH-1PU, C20P/XC20P) are registered explicitly once per process, as documented"]
BUDGET_S = {"quick": 85, "thorough": 1200}
FLOORS = {"quick": {"ser:compact": 300, "ser:general": 300, "zip:DEF": 150, "recipients:3+": 40, "forbidden": 150},
          "thorough": {"ser:general": 3000, "forbidden": 1000}}
ADDED = {"kid", "epk", "iv", "tag", "p2s", "p2c", "skid"}

case_strategy = st.fixed_dictionaries({
    "plan": jp.plans(allow_headerless=True),
    "keymode": st.sampled_from(["attached", "attached", "keyset", "callable"]),
    "form": st.sampled_from(KEYFORMS),
    # with zip=DEF now and then a plaintext right below the decompression limit: incompressible (its DEFLATE form is longer than the
    # plaintext) or highly compressible; value = distance from the limit
    "near_limit": st.sampled_from([None] * 9 + [0, 1, 39, 80, 200]),
    "near_limit_class": st.sampled_from(["random", "random", "zeros", "text"]),
    # the application registers a header parameter of its own (registry with header_registry=) and uses it in the protected header
    "custom_header": st.sampled_from([None, None, None, "x-app"]),
    # JSON serializations: the JWE object is encrypted twice (a template that is used again), the second output is the one judged
    "times": st.sampled_from([1, 1, 2]),
})


@st.composite
def forbidden_cases(draw):
    kind = draw(st.sampled_from(["direct-multi", "1pu-kw-noncbc"]))
    if kind == "direct-multi":
        plan = draw(jp.plans(sers=("general",), algs=[a for a in jp.ALGS if a not in rjwe.DIRECT], max_recipients=3, allow_zip=False, small=True))
        direct = draw(st.sampled_from(["dir", "ECDH-ES", "ECDH-1PU"]))
        curve = draw(st.sampled_from(jp.EC_CURVES + jp.X_CURVES))
        key = draw(jp.key_for(direct, plan["enc"], curve))
        rec = {"alg": direct, "key": gk.key_to_record(key), "header": {"alg": direct}, "kid": "rd"}
        pos = draw(st.integers(0, len(plan["recipients"])))
        recs = copy.deepcopy(plan["recipients"])
        for r in recs:
            r["header"] = {**(r["header"] or {}), "alg": r["alg"]}
        both_direct = draw(st.booleans())
        if both_direct:
            recs = [copy.deepcopy(rec), dict(copy.deepcopy(rec), kid="rd2")]
        else:
            recs.insert(pos, rec)
        plan["recipients"] = recs
        plan["protected"] = {k: v for k, v in plan["protected"].items() if k not in ("alg", "apu", "apv")}
        if plan["unprotected"]:
            plan["unprotected"].pop("alg", None)
        plan["place"] = "recipient"
        if direct == "ECDH-1PU" or any(r["alg"] in rjwe.ECDH_1PU for r in recs):
            plan["sender"] = gk.key_to_record(draw(jp.key_for("ECDH-1PU", plan["enc"], curve)))
            # recipients of agreement algorithms must share the sender's curve
            for r in recs:
                if r["alg"] in rjwe.ECDH_1PU:
                    r["key"] = gk.key_to_record(draw(jp.key_for(r["alg"], plan["enc"], curve)))
    else:
        alg = draw(st.sampled_from(["ECDH-1PU+A128KW", "ECDH-1PU+A192KW", "ECDH-1PU+A256KW"]))
        plan = draw(jp.plans(algs=[alg], encs=jp.CBC, max_recipients=2, small=True))
        enc = draw(st.sampled_from([e for e in jp.ENCS if e not in jp.CBC]))
        plan["enc"] = enc
        plan["protected"]["enc"] = enc
    return {"plan": plan, "kind": kind, "keymode": "attached", "form": "dict"}


def cells():
    """alg x enc x zip x serialization x curve class, enumerated completely in the thorough tier (data per cell is generated)."""
    for alg in jp.ALGS:
        for enc in jp.ENCS:
            if alg.startswith("ECDH-1PU+") and enc not in jp.CBC:
                continue
            for z in (False, True):
                for ser in jp.SERS:
                    crvs = [[c] for c in jp.EC_CURVES + jp.X_CURVES] if alg.startswith("ECDH") else [None]
                    for c in crvs:
                        yield (alg, enc, z, ser, c)


def shards(tier):
    out = [(f"rt{i:02d}", {"part": "rt"}) for i in range(13)] + [(f"fb{i}", {"part": "forbidden"}) for i in range(3)]
    if tier == "thorough":
        out += [(f"cells{i:02d}", {"part": "cells", "i": i, "n": 16}) for i in range(16)]
    return out


def _check_headers(obj, plan, f, tag):
    given_p = plan["protected"]
    got_p = dict(obj.protected)
    compact = plan["ser"] == "compact"
    extra = set(got_p) - set(given_p)
    rec0 = plan["recipients"][0]
    if compact:
        given_p = {**given_p, **jp._rec_header(plan, rec0, False)}
        extra = set(got_p) - set(given_p)
    if any(got_p.get(k) != v for k, v in given_p.items()) or not extra <= ADDED:
        f[f"C04:protected-header-differs:{tag}"] = f"protected after round trip {got_p!r}; given {given_p!r}"
    if not compact:
        if (obj.unprotected or {}) != (plan["unprotected"] or {}):
            f[f"C04:unprotected-header-differs:{tag}"] = f"unprotected after round trip {obj.unprotected!r}; given {plan['unprotected']!r}"
        if len(obj.recipients) != len(plan["recipients"]):
            f[f"C04:recipient-count-differs:{tag}"] = f"{len(obj.recipients)} recipients after round trip, {len(plan['recipients'])} given"
            return
        for i, (r, rec) in enumerate(zip(plan["recipients"], obj.recipients)):
            want = jp._rec_header(plan, r, True)
            got = dict(rec.header or {})
            if any(got.get(k) != v for k, v in want.items()) or not (set(got) - set(want)) <= ADDED:
                f[f"C04:recipient-header-differs:{tag}"] = f"recipient {i} header {got!r}; given {want!r}"


def run_case(case) -> dict:
    plan = case["plan"]
    if "enc" not in plan or "zip" not in plan:
        # a reduced witness may have lost members that only the messages use
        plan = {"enc": (plan.get("protected") or {}).get("enc"), "zip": (plan.get("protected") or {}).get("zip"), **plan}
        case = dict(case, plan=plan)
    if case.get("custom_header") and not case.get("kind"):
        plan = dict(plan, custom_header=case["custom_header"], protected={**plan["protected"], case["custom_header"]: "caller value"})
        case = dict(case, plan=plan)
    if case.get("near_limit") is not None and plan["zip"] == "DEF" and not case.get("kind"):
        import hashlib
        n = 256000 - case["near_limit"]
        cls = case["near_limit_class"]
        if cls == "random":
            blob = b"".join(hashlib.sha512(b"%d/%d" % (case["near_limit"], i)).digest() for i in range(n // 64 + 1))[:n]
        elif cls == "zeros":
            blob = bytes(n)
        else:
            blob = (b"the quick brown fox jumps over the lazy dog {\"claim\": true}\n" * (n // 60 + 1))[:n]
        plan = dict(plan, plaintext_hex=blob.hex())
        case = dict(case, plan=plan)
    pt = bytes.fromhex(plan["plaintext_hex"])
    algs = [r["alg"] for r in plan["recipients"]]
    tag = f"{plan['ser']}"
    f: dict = {}
    if case.get("kind"):
        try:
            tok = jp.jose_encrypt(plan, case["keymode"], case["form"])
        except Exception:
            return f
        # it produced something: is it at least decryptable by every recipient?
        detail = ""
        try:
            o = jp.jose_decrypt(tok, plan, "all")
            detail = "(the token happens to decrypt)" if o.plaintext == pt else "(decrypts to different plaintext)"
        except Exception as e:
            detail = f"(and cannot be decrypted: {type(e).__name__})"
        return {f"C04:forbidden-combination-not-refused:{case['kind']}": f"encryption with algs {algs} enc {plan['enc']} succeeded {detail}"}
    headerless = plan.get("headerless") and len(plan["recipients"]) > 1
    try:
        tok = jp.jose_encrypt(plan, "attached" if headerless else case["keymode"], case["form"], times=case.get("times", 1) if plan["ser"] != "compact" else 1)
    except Exception as e:
        return {f"C04:encrypt-raises:{tag}:{exc_key(e)}": f"{type(e).__name__}: {e} (algs {algs}, enc {plan['enc']})"}
    if headerless:
        # recipients without a header of their own: there is no kid to resolve, so each recipient decrypts alone
        for i in range(len(plan["recipients"])):
            if plan["recipients"][i]["key"]["kty"] == "RSA" and any(a == "RSA1_5" for j, a in enumerate(algs) if j != i):
                continue
            try:
                o2 = jp.jose_decrypt(copy.deepcopy(tok), plan, "one", case["form"], i)
                if o2.plaintext != pt:
                    f["C04:plaintext-differs:headerless-recipient"] = f"recipient {i} ({algs[i]}) decrypts different plaintext"
            except Exception as e:
                f[f"C04:headerless-recipient-cannot-decrypt:{exc_key(e)}"] = (f"{len(algs)} recipients without own headers ({algs}, alg in the {plan['place']} header): "
                                                                            f"recipient {i} cannot decrypt: {type(e).__name__}: {e}")
        return f
    try:
        obj = jp.jose_decrypt(copy.deepcopy(tok), plan, "all", case["form"])
    except Exception as e:
        return {f"C04:decrypt-raises:{tag}:{exc_key(e)}": f"own token does not decrypt: {type(e).__name__}: {e} (algs {algs}, enc {plan['enc']}, zip {plan['zip']})"}
    if obj.plaintext != pt:
        f[f"C04:plaintext-differs:{tag}:zip={plan['zip']}"] = f"decrypted {len(obj.plaintext)} octets {obj.plaintext[:30]!r}; encrypted {len(pt)} octets {pt[:30]!r}"
    _check_headers(obj, plan, f, tag)
    if plan["ser"] == "general" and len(plan["recipients"]) > 1:
        for i in range(len(plan["recipients"])):
            if plan["recipients"][i]["key"]["kty"] == "RSA" and any(a == "RSA1_5" for j, a in enumerate(algs) if j != i):
                # RSA1_5 implicit rejection: offering an RSA key to a foreign RSA1_5 recipient yields a pseudo-random CEK, so the
                # any-recipient mode sees two different CEKs.  Outside the statement (DONT_CARE, see DESIGN C02/C04).
                continue
            try:
                o2 = jp.jose_decrypt(copy.deepcopy(tok), plan, "one", case["form"], i)
                if o2.plaintext != pt:
                    f[f"C04:plaintext-differs:single-recipient"] = f"recipient {i} ({algs[i]}) decrypts different plaintext"
            except Exception as e:
                f[f"C04:single-recipient-decrypt-raises:{exc_key(e)}"] = f"recipient {i} ({algs[i]}) cannot decrypt alone: {type(e).__name__}: {e}"
    # compact: the key is resolved by a callable that itself opens another compact JWE before it answers
    if plan["ser"] == "compact" and not f and case.get("kind") is None:
        from joserfc import jwe
        try:
            keys = jp.jose_private_keys(plan, case["form"])
            from gens.jose import jkey as _jkey
            from gens import keys as _gk
            from ref import keys as _rk
            spub = _jkey(_rk.public_of(_gk.key_from_record(plan["sender"])), case["form"], False) if plan["sender"] else None
            other = jp.jose_encrypt(dict(plan, plaintext_hex=b"the other message".hex()), "attached", case["form"])

            def resolve(obj_):
                if jwe.decrypt_compact(other, keys[0], sender_key=spub, **jp.allow_kw(plan)).plaintext != b"the other message":
                    raise AssertionError("nested decrypt wrong")
                return keys[0]
            o4 = jwe.decrypt_compact(tok, resolve, sender_key=spub, **jp.allow_kw(plan))
            if o4.plaintext != pt:
                f["C04:nested-resolver:plaintext-differs"] = f"decrypt_compact with a key resolver that opens another token returns {o4.plaintext[:40]!r}"
        except Exception as e:
            f[f"C04:nested-resolver-raises:{exc_key(e)}"] = f"decrypt_compact with a key resolver that opens another compact token: {type(e).__name__}: {e}"
    # open - amend - re-seal (JSON serializations): the returned object gets another protected member and is encrypted again
    if plan["ser"] != "compact" and plan["zip"] is None and not f:
        from joserfc import jwe
        from gens.jose import jkey
        from gens import keys as gk
        from ref import keys as rk
        try:
            obj.protected["cty"] = "amended"
            for r, rec in zip(obj.recipients, plan["recipients"]):
                kref = gk.key_from_record(rec["key"])
                r.recipient_key = jkey(kref if kref["kty"] == "oct" else rk.public_of(kref), "dict", kref["kty"] == "oct")
                r.sender_key = None
                if r.header:
                    for m in ("epk", "iv", "tag", "p2s", "p2c"):
                        r.header.pop(m, None)
            spriv = jkey(gk.key_from_record(plan["sender"]), "dict", True) if plan["sender"] else None
            tok2 = jwe.encrypt_json(obj, None, sender_key=spriv, **jp.allow_kw(plan))
            o3 = jp.jose_decrypt(copy.deepcopy(tok2), plan, "all" if len(plan["recipients"]) == 1 or not plan.get("headerless") else "one", case["form"])
            if o3.plaintext != pt:
                f["C04:reseal:plaintext-differs"] = "decrypt -> amend -> encrypt -> decrypt returns other data"
            elif o3.protected.get("cty") != "amended":
                f["C04:reseal:amendment-lost"] = f"protected header after re-sealing: {o3.protected!r}"
        except Exception as e:
            f[f"C04:reseal-raises:{exc_key(e)}"] = f"decrypt_json -> amend protected header -> encrypt_json -> decrypt_json: {type(e).__name__}: {e}"
    return f


def run_shard(ctx, spec):
    from gens.jose import setup_joserfc
    setup_joserfc()

    def body(case):
        plan = case["plan"]
        f = run_case(case)
        n = len(plan["recipients"])
        ctx.case((jp.plan_label(plan), case["keymode"], case["form"], case.get("kind")),
                 cls=[f"ser:{plan['ser']}", f"enc:{plan['enc']}", f"zip:{plan['zip']}", f"recipients:{n if n < 3 else '3+'}",
                      f"keymode:{case['keymode']}", f"place:{plan['place']}", f"headerless:{bool(plan.get('headerless'))}", f"pt:{jp.pt_class(bytes.fromhex(plan['plaintext_hex']))}"]
                 + [f"alg:{r['alg']}" for r in plan["recipients"]] + (["forbidden", f"forbidden:{case['kind']}"] if case.get("kind") else []),
                 sample={"ser": plan["ser"], "enc": plan["enc"], "zip": plan["zip"], "algs": [r["alg"] for r in plan["recipients"]],
                         "protected": plan["protected"], "unprotected": plan["unprotected"], "aad": plan["aad_hex"],
                         "plaintext_len": len(plan["plaintext_hex"]) // 2, "keymode": case["keymode"], "kind": case.get("kind", "roundtrip")})
        for k, w in f.items():
            ctx.finding(k, w, case)
    if spec["part"] == "cells":
        for j, (alg, enc, z, ser, crv) in enumerate(cells()):
            if j % spec["n"] != spec["i"] or ctx.expired():
                continue
            strat = st.fixed_dictionaries({"plan": jp.plans(sers=(ser,), algs=[alg], encs=[enc], force_zip=z, curves=crv, max_recipients=2),
                                           "keymode": st.sampled_from(["attached", "keyset", "callable"]), "form": st.sampled_from(KEYFORMS)})
            drive(ctx, f"cell-{alg}-{enc}-{z}-{ser}-{crv}", strat, body, 3)
            ctx.count("cells-enumerated")
        return
    if spec["part"] == "rt":
        drive(ctx, "rt", case_strategy, body, 420 if ctx.tier == "quick" else 3000)
    else:
        drive(ctx, "forbidden", forbidden_cases(), body, 300 if ctx.tier == "quick" else 1500)


def replay(rec) -> dict:
    from gens.jose import setup_joserfc
    setup_joserfc()
    return run_case(rec)
