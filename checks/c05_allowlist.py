"""C05 - only caller-allowed algorithms are ever used; the default is the recommended set.

Part A: the matrix (name x allow-list shape x passing style x operation x entry point) is enumerated completely.
Part B: rule-based state machine over long-lived registries: arbitrary call sequences, every outcome compared with the model
        "allowed set = what the registry was constructed with / what was passed / the recommended set".
Consumption-side tokens are minted by the reference (validly signed / encrypted), so a refusal is attributable to the gate and
an acceptance would be a real verification.
"""
from __future__ import annotations
import copy
import itertools
import json

from hypothesis import strategies as st

from harness.core import HarnessError
from harness.hyp import drive
from harness.fork import in_child
from gens import keys as gk, jweplan
from gens.jose import jkey, ALL_JWS
from ref import jws as rjws, jwe as rjwe, b64 as rb, keys as rk, selftest

LEVEL = "exploration"
RULE = ("part A (exhaustive over the finite configuration matrix): name in {15 JWS algs, 21 JWE algs, 8 encs, DEF, unknown and near-miss "
        "strings, non-string JSON values} x allow-list in {absent, [], [name], [other], all, subset-with, subset-without} given as "
        "algorithms= or registry= x operation in {sign, verify, encrypt, decrypt} x entry point in {compact, flattened, general, "
        "RFC 7797, jwt.encode/decode}; for JWE the name under test stands in alg, enc or zip while the other two are allowed. A suitable "
        "key is always supplied; consumed tokens are reference-minted with exactly that alg; general JSON for two recipients, one naming an "
        "algorithm outside the list, consumed with verify_all_recipients=False; general JSON JWS with two valid signatures, one under an algorithm outside the list / the recommended set. part B: 120 generated histories x 30 "
        "steps over long-lived registries. Oracle: success iff (allowed and registered), except verification with 'none' (never); a "
        "refused well-typed name must raise UnsupportedAlgorithmError. non-trivial: every cell; distinct = cell tuple; histories with "
        ">= 2 different allow-lists.")
ASSUMPTIONS = ["allow-list [] is DONT_CARE beyond 'nothing outside the recommended set is usable'",
               "ECDH-1PU and ChaCha20 drafts are registered explicitly once per process (documented mechanism, excluded by the statement)",
               "algorithms= and registry= are never passed together"]
BUDGET_S = {"quick": 85, "thorough": 900}
EXHAUSTIVE = {"quick": True, "thorough": True}
FLOORS = {"quick": {"must-accept": 1500, "must-reject": 6000, "machine-steps": 2000, "op:verify": 1500, "op:decrypt": 1500}, "thorough": {"machine-steps": 30000}}

REC_JWS = {"HS256", "RS256", "ES256"}
REC_JWE = {"RSA-OAEP", "A128KW", "A256KW", "dir", "ECDH-ES", "ECDH-ES+A128KW", "ECDH-ES+A256KW",
           "A128CBC-HS256", "A192CBC-HS384", "A256CBC-HS512", "A128GCM", "A192GCM", "A256GCM", "DEF"}
JWS_NAMES = ["none"] + gk.JWS_ALGS
BAD_STR = ["hs256", "HS256 ", "", "HS257", "nonexistent", "RS256\x00", "A128KW", "A128GCM"]
NON_STR = [None, 5, True, ["HS256"], {"a": 1}, 1.5]

_K = None


def K():
    global _K
    if _K is None:
        ref = {
            "oct16": {"kty": "oct", "k": bytes(range(16))}, "oct24": {"kty": "oct", "k": bytes(range(24))}, "oct32": {"kty": "oct", "k": bytes(range(32))},
            "oct48": {"kty": "oct", "k": bytes(range(48))}, "oct64": {"kty": "oct", "k": bytes(range(64))},
            "RSA": {k: v for k, v in gk.rsa_pool()[2].items() if k != "bits"},
            "P-256": gk.ec_from_d("P-256", 424242), "P-384": gk.ec_from_d("P-384", 424242), "P-521": gk.ec_from_d("P-521", 424242),
            "secp256k1": gk.ec_from_d("secp256k1", 424242), "Ed25519": gk.okp_from_seed("Ed25519", bytes(range(32))),
            "P-256s": gk.ec_from_d("P-256", 777),
        }
        _K = {"ref": ref, "obj": {n: jkey(k, "dict", True) for n, k in ref.items()}}
    return _K


def jws_keyname(alg):
    if not isinstance(alg, str):
        return "oct32"
    if alg[:2] in ("RS", "PS"):
        return "RSA"
    if alg in gk.ES_CRV:
        return gk.ES_CRV[alg]
    if alg == "EdDSA":
        return "Ed25519"
    return "oct32"


def jwe_keyname(alg, enc):
    if not isinstance(alg, str):
        return "oct16"
    if alg in rjwe.RSA_ALGS:
        return "RSA"
    if alg.startswith("ECDH"):
        return "P-256"
    if alg == "dir":
        return "oct%d" % rjwe.ENCS.get(enc, (16,))[0]
    size = rjwe.KW_SIZE.get(alg) or rjwe.GCMKW_SIZE.get(alg)
    return "oct%d" % size if size else "oct32"


# ------------------------------------------------------------------ the model
def allowed(name, L, recommended) -> object:
    """True / False / 'dont_care'."""
    if L is None:
        return isinstance(name, str) and name in recommended
    if L == []:
        return False if not (isinstance(name, str) and name in recommended) else "dont_care"
    return isinstance(name, str) and name in L


# ------------------------------------------------------------------ JWS operations
# rfc7797-json / rfc7797-general: the RFC 7797 JSON functions on tokens WITHOUT a b64 member (they hand over to the RFC 7515 code)
JWS_ENTRIES = ["compact", "flattened", "general", "rfc7797", "jwt", "rfc7797-json", "rfc7797-general"]


def jws_call(op, entry, alg, style, L, reg_obj=None):
    """Perform the operation; returns ('ok', result) or ('err', exception)."""
    from joserfc import jws, jwt, rfc7797
    k = K()
    kn = jws_keyname(alg)
    key = k["obj"][kn]
    kw = {}
    if style == "algorithms":
        kw["algorithms"] = L
    elif style == "registry":
        kw["registry"] = reg_obj if reg_obj is not None else (rfc7797.JWSRegistry(algorithms=L) if entry == "rfc7797" else jws.JWSRegistry(algorithms=L))
    elif style == "plain-registry":
        # the RFC 7515 registry class handed to the RFC 7797 functions: it may refuse the b64 header, it must not widen the list
        if entry != "rfc7797":
            return "skip", None
        kw["registry"] = jws.JWSRegistry(algorithms=L)
    payload = b'{"a":1}' if entry == "jwt" else b"payload"
    hdr = {"alg": alg}
    try:
        if op == "sign":
            if entry == "compact":
                return "ok", jws.serialize_compact(hdr, payload, key, **kw)
            if entry == "flattened":
                return "ok", jws.serialize_json({"protected": hdr}, payload, key, **kw)
            if entry == "general":
                return "ok", jws.serialize_json([{"protected": hdr}], payload, key, **kw)
            if entry == "rfc7797":
                return "ok", rfc7797.serialize_compact({"alg": alg, "b64": False, "crit": ["b64"]}, b"payload", key, **kw)
            if entry == "rfc7797-json":
                return "ok", rfc7797.serialize_json({"protected": hdr}, payload, key, **kw)
            if entry == "rfc7797-general":
                return "skip", None
            return "ok", jwt.encode(hdr, {"a": 1}, key, **kw)
        # verify: reference-minted token naming exactly this alg
        real = alg if isinstance(alg, str) and alg in rjws.KTY else "HS256"
        rkey = k["ref"][jws_keyname(real)]
        if entry == "rfc7797":
            ptext = json.dumps({"alg": alg, "b64": False, "crit": ["b64"]}).encode()
            tok = rjws.make_compact(ptext, b"payload", real, rkey, b64_payload=False)
            return "ok", rfc7797.deserialize_compact(tok, key, **kw)
        ptext = json.dumps({"alg": alg}).encode()
        if entry in ("compact", "jwt"):
            tok = rjws.make_compact(ptext, payload, real, rkey)
            if entry == "jwt":
                return "ok", jwt.decode(tok, key, **kw)
            return "ok", jws.deserialize_compact(tok, key, **kw)
        sig = rjws.make_json_signature(ptext, None, payload, real, rkey)
        tok = {"payload": rb.encode(payload), **sig} if entry in ("flattened", "rfc7797-json") else {"payload": rb.encode(payload), "signatures": [sig]}
        if entry.startswith("rfc7797-"):
            return "ok", rfc7797.deserialize_json(tok, key, **kw)
        return "ok", jws.deserialize_json(tok, key, **kw)
    except Exception as e:
        return "err", e


# ------------------------------------------------------------------ JWE operations
JWE_ENTRIES = ["compact", "flattened", "general", "jwt"]


def jwe_call(op, entry, alg, enc, zipv, style, L, reg_obj=None):
    from joserfc import jwe, jwt
    k = K()
    kn = jwe_keyname(alg, enc)
    key = k["obj"][kn]
    sender = k["obj"]["P-256s"] if isinstance(alg, str) and alg.startswith("ECDH-1PU") else None
    kw = {}
    if style == "both" and entry != "jwt":
        return "skip", None
    try:
        if style == "algorithms":
            kw["algorithms"] = L
        elif style == "registry":
            kw["registry"] = reg_obj if reg_obj is not None else jwe.JWERegistry(algorithms=L)
        elif style == "both":
            # jwt over JWE: a JWERegistry instance selects the transport, the caller's list comes through algorithms=
            kw["registry"] = jwe.JWERegistry()
            kw["algorithms"] = L
    except Exception as e:
        return "err", e      # a registry that cannot even be built from the list: the listed names are not usable
    hdr = {"alg": alg, "enc": enc}
    if zipv is not None:
        hdr["zip"] = zipv
    pt = b'{"a":1}'
    try:
        if op == "encrypt":
            if entry == "compact":
                return "ok", jwe.encrypt_compact(hdr, pt, key, sender_key=sender, **kw)
            if entry == "jwt":
                if style not in ("registry", "both") or sender is not None:
                    return "skip", None  # jwt.encode has no sender_key parameter
                return "ok", jwt.encode(hdr, {"a": 1}, key, **kw)
            cls = jwe.FlattenedJSONEncryption if entry == "flattened" else jwe.GeneralJSONEncryption
            o = cls({k2: v for k2, v in hdr.items() if k2 != "alg"}, pt)
            o.add_recipient({"alg": alg}, key)
            return "ok", jwe.encrypt_json(o, None, sender_key=sender, **kw)
        # decrypt: reference-minted token
        real_alg = alg if isinstance(alg, str) and alg in rjwe.ALGS else "dir"
        real_enc = enc if isinstance(enc, str) and enc in rjwe.ENCS else "A128GCM"
        rkey = k["ref"][jwe_keyname(real_alg, real_enc)]
        plan = {"ser": "compact" if entry in ("compact", "jwt") else entry, "enc": real_enc, "zip": "DEF" if zipv == "DEF" else None,
                "plaintext_hex": pt.hex(), "aad_hex": None, "protected": dict(hdr), "unprotected": None,
                "recipients": [{"alg": real_alg, "key": gk.key_to_record(rkey), "header": None, "kid": None, "p2c": 8, "p2s": "0011223344556677"}],
                "sender": gk.key_to_record(k["ref"]["P-256s"]) if real_alg in rjwe.ECDH_1PU else None, "place": "protected"}
        if real_alg not in rjwe.PBES2:
            del plan["recipients"][0]["p2c"], plan["recipients"][0]["p2s"]
        plan["protected"]["enc"] = real_enc
        plan["protected"]["alg"] = real_alg
        tok, _ = jweplan.ref_encrypt(plan, 1, ("canonical", 0), additions_in_protected=True)
        # now put the names under test into the (re-built) header: only possible when they are the real ones; otherwise
        # the token is unauthentic by construction and merely probes the gate
        # (an arbitrary "zip" name is already part of the authenticated header: plan["protected"] carries it)
        if (alg, enc) != (real_alg, real_enc):
            if isinstance(tok, str):
                segs = tok.split(".")
                h = json.loads(rb.decode(segs[0]))
                h.update(hdr)
                segs[0] = rb.encode(json.dumps(h).encode())
                tok = ".".join(segs)
            else:
                h = json.loads(rb.decode(tok["protected"]))
                h.update(hdr)
                tok["protected"] = rb.encode(json.dumps(h).encode())
        if entry == "compact":
            return "ok", jwe.decrypt_compact(tok, key, sender_key=sender, **kw)
        if entry == "jwt":
            if style not in ("registry", "both"):
                return "skip", None
            if sender is not None:
                return "skip", None
            return "ok", jwt.decode(tok, key, **kw)
        return "ok", jwe.decrypt_json(tok, key, sender_key=sender, **kw)
    except Exception as e:
        return "err", e


# ------------------------------------------------------------------ judging one cell
def judge(kind, op, entry, names, under_test, style, L, outcome):
    """names: dict position->name actually used; under_test: position. Returns (verdict_class, finding or None)."""
    from joserfc.errors import UnsupportedAlgorithmError
    rec = REC_JWS if kind == "jws" else REC_JWE
    registered_by_pos = ({"alg": set(JWS_NAMES)} if kind == "jws" else
                         {"alg": set(jweplan.ALGS), "enc": set(jweplan.ENCS), "zip": {"DEF"}})
    verdicts = []
    for pos, name in names.items():
        if name is None and pos == "zip":
            continue
        a = allowed(name, L if style != "default" else None, rec)
        if a == "dont_care":
            return "dont_care", None
        verdicts.append((pos, name, bool(a) and isinstance(name, str) and name in registered_by_pos[pos]))
    must_accept = all(v for _, _, v in verdicts)
    if kind == "jws" and op == "verify" and names["alg"] == "none":
        must_accept = False
    status, val = outcome
    where = f"{kind}:{op}:{entry}"
    cell = {"kind": kind, "op": op, "entry": entry, "names": names, "style": style, "L": L}
    if must_accept:
        if status == "err" and style == "plain-registry":
            return "must-accept", None      # refusing the b64 header is this registry's right
        if status == "err":
            return "must-accept", (f"C05:allowed-algorithm-refused:{where}:{type(val).__name__}",
                                   f"{names} with allow-list {L!r} ({style}) must be usable but {op} raised {type(val).__name__}: {val}", cell)
        return "must-accept", None
    if status == "ok":
        bad = [(p, n) for p, n, v in verdicts if not v] or [("alg", "none")]
        return "must-reject", (f"C05:disallowed-algorithm-used:{where}:{bad[0][0]}",
                               f"{op} succeeded with {dict(bad)} although the allow-list is {L!r} ({style})", cell)
    bad = [(p, n) for p, n, v in verdicts if not v]
    if style == "plain-registry":
        return "must-reject", None      # whichever error: this registry may already object to the b64 header
    if bad and all(isinstance(n, str) for _, n in bad) and not isinstance(val, UnsupportedAlgorithmError):
        # only judged when the name under test is the sole problem (the other names are allowed)
        if len(bad) == 1 and all(isinstance(n, str) or n is None for n in names.values()):
            return "must-reject", (f"C05:wrong-error-for-unsupported-algorithm:{where}:{type(val).__name__}",
                                   f"{dict(bad)} not allowed by {L!r} ({style}): raised {type(val).__name__}: {val} instead of UnsupportedAlgorithmError", cell)
    return "must-reject", None


def lists_for(name, universe, recommended):
    others = [u for u in universe if u != name]
    other = others[0] if others else "HS256"
    rec_other = sorted(r for r in recommended if r != name)[0]
    return [("absent", None), ("empty", []), ("single-self", [name] if isinstance(name, str) else [other]), ("single-other", [other]),
            ("all", list(universe)), ("subset-with", [rec_other, name] if isinstance(name, str) else [rec_other]), ("subset-without", [rec_other, other]),
            # lists made of recommended names only (one, all but the name): they restrict like any other list
            ("recommended-one", [rec_other]), ("recommended-without", sorted(r for r in recommended if r != name))]


def run_any_recipient_cell(cell) -> tuple:
    """General JSON JWE for two recipients, one of which names an algorithm outside the allow-list; the consumer accepts any single
    recipient (verify_all_recipients=False) and holds the key of the other, perfectly allowed, recipient. The call must still fail:
    a name outside the list is never skipped over."""
    from joserfc import jwe
    from joserfc.errors import UnsupportedAlgorithmError
    k = K()
    name, L, order = cell["names"]["alg"], cell["L"], cell["order"]
    good = {"alg": "A128KW", "key": gk.key_to_record(k["ref"]["oct16"]), "header": {"alg": "A128KW"}, "kid": None}
    other = {"alg": "A128KW", "key": gk.key_to_record(k["ref"]["oct16"]), "header": {"alg": "A128KW"}, "kid": None}
    plan = {"ser": "general", "enc": "A128GCM", "zip": None, "plaintext_hex": b"x".hex(), "aad_hex": None, "protected": {"enc": "A128GCM"}, "unprotected": None,
            "recipients": [good, other] if order == "bad-last" else [other, good], "sender": None, "place": "recipient"}
    tok, _ = jweplan.ref_encrypt(plan, 3, ("canonical", 0))
    tok["recipients"][1 if order == "bad-last" else 0]["header"]["alg"] = name      # per-recipient headers are not integrity protected
    reg = jwe.JWERegistry(algorithms=L, verify_all_recipients=False)
    try:
        jwe.decrypt_json(tok, k["obj"]["oct16"], registry=reg)
        return "must-reject", (f"C05:disallowed-algorithm-used:jwe:decrypt:general-any-recipient:alg",
                               f"a recipient names {name!r}, the allow-list is {L!r}: decrypt_json (verify_all_recipients=False) returned a plaintext", cell)
    except Exception as e:
        if isinstance(name, str) and not isinstance(e, UnsupportedAlgorithmError):
            return "must-reject", (f"C05:wrong-error-for-unsupported-algorithm:jwe:decrypt:general-any-recipient:{type(e).__name__}",
                                   f"recipient alg {name!r} outside {L!r}: {type(e).__name__}: {e} instead of UnsupportedAlgorithmError", cell)
        return "must-reject", None


def run_multi_signature_cell(cell) -> tuple:
    """General JSON JWS with two valid HMAC signatures under one key: one names an allowed algorithm, the other a name outside the
    allow-list (or outside the recommended set when no list is given). Every signature has to be checked, so the call must fail: a
    signature whose algorithm is not allowed is never skipped over."""
    from joserfc import jws, rfc7797
    k = K()
    name, L, order, style, entry = cell["names"]["alg"], cell["L"], cell["order"], cell["style"], cell["entry"]
    good_alg = "HS256" if (L is None or "HS256" in L) else L[0]
    payload = b"payload"
    real = name if name in ("HS256", "HS384", "HS512") else "HS256"
    sig_good = rjws.make_json_signature(json.dumps({"alg": good_alg}).encode(), None, payload, good_alg, k["ref"]["oct64"])
    sig_bad = rjws.make_json_signature(json.dumps({"alg": name}).encode(), None, payload, real, k["ref"]["oct64"])
    tok = {"payload": rb.encode(payload), "signatures": [sig_good, sig_bad] if order == "bad-last" else [sig_bad, sig_good]}
    kw = {} if style == "default" else {"algorithms": L} if style == "algorithms" else {"registry": jws.JWSRegistry(algorithms=L)}
    if cell.get("accept"):
        # both algorithms are allowed (in an order other than that of the list, or one name twice): producing and consuming succeed
        a1, a2 = cell["accept"]
        mod = rfc7797 if entry == "rfc7797-general-two" else jws
        try:
            sigs = [rjws.make_json_signature(json.dumps({"alg": a}).encode(), None, payload, a, k["ref"]["oct64"]) for a in (a1, a2)]
            mod.deserialize_json({"payload": rb.encode(payload), "signatures": sigs}, k["obj"]["oct64"], **kw)
            made = jws.serialize_json([{"protected": {"alg": a1}}, {"protected": {"alg": a2}}], payload, k["obj"]["oct64"], **kw)
            mod.deserialize_json(made, k["obj"]["oct64"], **kw)
            return "must-accept", None
        except Exception as e:
            return "must-accept", (f"C05:allowed-algorithm-refused:jws:general-two-signatures:{type(e).__name__}",
                                   f"signatures under {a1} and {a2}, allowed are {L!r}: {type(e).__name__}: {e}", cell)
    try:
        (rfc7797 if entry == "rfc7797-general-two" else jws).deserialize_json(tok, k["obj"]["oct64"], **kw)
        return "must-reject", ("C05:disallowed-algorithm-used:jws:verify:general-two-signatures",
                               f"one of two signatures names {name!r}, allowed are {L!r} (None = the recommended set): deserialize_json returned the object", cell)
    except Exception:
        return "must-reject", None


def run_cell(cell) -> tuple:
    kind, op, entry, names, style, L = cell["kind"], cell["op"], cell["entry"], cell["names"], cell["style"], cell["L"]
    if kind == "jwe-any":
        return run_any_recipient_cell(cell)
    if kind == "jws-multi":
        return run_multi_signature_cell(cell)
    # the caller may hold the names in another container than a list (a tuple constant, a frozenset): it restricts all the same
    Lc = L if not cell.get("container") or not L else tuple(L) if cell["container"] == "tuple" else frozenset(L)
    if kind == "jws":
        out = jws_call(op, entry, names["alg"], style, Lc)
    else:
        out = jwe_call(op, entry, names["alg"], names["enc"], names.get("zip"), style, Lc)
    if out[0] == "skip":
        return "skip", None
    return judge(kind, op, entry, names, None, style, L, out)


def matrix(part):
    import zlib
    for cell in _matrix(part):
        yield cell
        if cell["kind"] in ("jws", "jwe") and cell["style"] in ("algorithms", "registry") and cell["L"] and isinstance(cell["names"].get("alg"), str):
            h = zlib.crc32(json.dumps(cell, sort_keys=True, default=str).encode())
            if h % 5 == 0:
                yield dict(cell, container=("tuple", "frozenset")[h // 5 % 2], shape=cell["shape"] + ":" + ("tuple", "frozenset")[h // 5 % 2])


def _matrix(part):
    if part == "jws":
        for name in JWS_NAMES + BAD_STR + NON_STR:
            for shape, L in lists_for(name, JWS_NAMES, REC_JWS):
                for style in (["default"] if L is None else ["algorithms", "registry", "plain-registry"]):
                    for op in ("sign", "verify"):
                        for entry in (JWS_ENTRIES if style != "plain-registry" else ["rfc7797"]):
                            if isinstance(name, (list, dict)) and op == "verify" and False:
                                continue
                            yield {"kind": "jws", "op": op, "entry": entry, "names": {"alg": name}, "style": style, "L": L, "shape": shape}
        for name, L in [("HS384", None), ("HS512", None), ("none", None), ("FOO", None), ("HS512", ["HS256"]), ("HS384", ["HS256", "HS512"]), ("none", ["HS256"]),
                        ("hs256", ["HS256"]), ("", ["HS256"]), ("HS256", ["HS512"]), ("HS256", ["HS384", "ES256"])]:
            for order in ("bad-last", "bad-first"):
                for style in (["default"] if L is None else ["algorithms", "registry"]):
                    for entry in ("general-two", "rfc7797-general-two"):
                        yield {"kind": "jws-multi", "op": "verify", "entry": entry, "names": {"alg": name}, "style": style, "L": L, "shape": "two-signatures", "order": order}
        for L, pair in [(["HS256", "HS512"], ("HS512", "HS256")), (["HS256", "HS512"], ("HS256", "HS256")), (["HS384", "HS256", "HS512"], ("HS512", "HS384")),
                        (["HS512"], ("HS512", "HS512")), (None, ("HS256", "HS256"))]:
            for style in (["default"] if L is None else ["algorithms", "registry"]):
                for entry in ("general-two", "rfc7797-general-two"):
                    yield {"kind": "jws-multi", "op": "verify", "entry": entry, "names": {"alg": pair[0]}, "style": style, "L": L, "shape": "two-signatures-allowed", "order": "-",
                           "accept": list(pair)}
    else:
        base = {"alg": "A128KW", "enc": "A128GCM", "zip": None}
        universe = jweplan.ALL_NAMES
        tests = [("alg", n) for n in jweplan.ALGS + ["a128kw", "", "HS256", "A128GCM"] + NON_STR] + \
                [("enc", n) for n in jweplan.ENCS + ["a128gcm", "", "A128KW", "A512GCM"] + NON_STR] + \
                [("zip", n) for n in ["DEF", "def", "GZIP", "", 5, ["DEF"]]]
        for pos, name in tests:
            names = dict(base)
            names[pos] = name
            if pos == "alg" and isinstance(name, str) and name.startswith("ECDH-1PU+"):
                names["enc"] = "A128CBC-HS256"
            fixed = [v for p, v in names.items() if p != pos and v is not None]
            for shape, L in lists_for(name, universe, REC_JWE):
                if L:
                    if shape in ("single-self", "subset-with", "all"):
                        L = list(dict.fromkeys(L + fixed))          # the other two names are allowed: only `name` decides
                    elif shape in ("single-other", "subset-without", "recommended-one", "recommended-without"):
                        L = [x for x in dict.fromkeys(L + fixed) if x != name]
                for style in (["default"] if L is None else ["algorithms", "registry", "both"] if L else ["algorithms", "registry"]):
                    for op in ("encrypt", "decrypt"):
                        for entry in (JWE_ENTRIES if style != "both" else ["jwt"]):
                            yield {"kind": "jwe", "op": op, "entry": entry, "names": dict(names), "style": style, "L": L, "shape": shape, "pos": pos}
        for name in [a for a in jweplan.ALGS if a != "A128KW"] + ["a128kw", "A512KW", ""]:
            for order in ("bad-last", "bad-first"):
                yield {"kind": "jwe-any", "op": "decrypt", "entry": "general-any-recipient", "names": {"alg": name, "enc": "A128GCM", "zip": None}, "style": "registry",
                       "L": ["A128KW", "A128GCM"], "shape": "subset-without", "pos": "alg", "order": order}


# ------------------------------------------------------------------ part B: histories
class HistoryState:
    """Long-lived registries created with different allow-lists; steps are JSON descriptors so that a history replays verbatim."""

    def __init__(self, lists):
        from joserfc import jws, jwe, rfc7797
        self.regs = []
        self.broken = []
        for kind, L in lists:
            try:
                if kind == "jws":
                    self.regs.append(("jws", L, jws.JWSRegistry(algorithms=L)))
                elif kind == "jws7797":
                    self.regs.append(("jws", L, rfc7797.JWSRegistry(algorithms=L)))
                else:
                    self.regs.append(("jwe", L, jwe.JWERegistry(algorithms=L)))
            except Exception as e:
                # a list may name things this registry does not know (they are simply not usable); the rest of the list stays usable
                self.broken.append((kind, L, e))

    def step(self, st_):
        """Execute one step. Returns None (not judged) or (cell, (verdict, finding))."""
        from joserfc import jws, jwe
        k = K()
        r = st_["rule"]
        if r == "both":
            if not self.regs:
                return None
            kind, RL, obj = self.regs[st_["which"] % len(self.regs)]
            L = st_["L"]
            try:
                if kind == "jws":
                    if st_["op"] == "produce":
                        jws.serialize_compact({"alg": "HS256"}, b"x", k["obj"]["oct32"], algorithms=L, registry=obj)
                    else:
                        jws.deserialize_compact(rjws.make_compact(b'{"alg":"HS256"}', b"x", "HS256", k["ref"]["oct32"]), k["obj"]["oct32"], algorithms=L, registry=obj)
                elif st_["op"] == "produce":
                    jwe.encrypt_compact({"alg": "A128KW", "enc": "A128GCM"}, b"x", k["obj"]["oct16"], algorithms=L, registry=obj)
                else:
                    jwe.decrypt_compact("e30.AA.AA.AA.AA", k["obj"]["oct16"], algorithms=L, registry=obj)
            except Exception:
                pass
            return None
        how, L, op, entry = st_["how"], st_["L"], st_["op"], st_["entry"]
        if r == "jws":
            alg = st_["alg"]
            regs = [x for x in self.regs if x[0] == "jws"]
            names = {"alg": alg}
            if how < 4 and regs:
                _, RL, obj = regs[how % len(regs)]
                if entry == "rfc7797" and type(obj).__module__.endswith("rfc7515.registry"):
                    entry = "compact"
                cell = {"kind": "jws", "op": op, "entry": entry, "names": names, "style": "registry", "L": RL}
                out = jws_call(op, entry, alg, "registry", RL, obj)
            elif how < 7:
                cell = {"kind": "jws", "op": op, "entry": entry, "names": names, "style": "algorithms", "L": L}
                out = jws_call(op, entry, alg, "algorithms", L)
            else:
                cell = {"kind": "jws", "op": op, "entry": entry, "names": names, "style": "default", "L": None}
                out = jws_call(op, entry, alg, "default", None)
            if out[0] == "skip":
                return None
            return cell, judge("jws", op, entry, names, None, cell["style"], cell["L"], out)
        alg, enc = st_["alg"], st_["enc"]
        if alg.startswith("ECDH-1PU+") and enc not in jweplan.CBC:
            enc = "A128CBC-HS256"
        names = {"alg": alg, "enc": enc, "zip": None}
        regs = [x for x in self.regs if x[0] == "jwe"]
        if how < 4 and regs:
            _, RL, obj = regs[how % len(regs)]
            cell = {"kind": "jwe", "op": op, "entry": entry, "names": names, "style": "registry", "L": RL}
            out = jwe_call(op, entry, alg, enc, None, "registry", RL, obj)
        elif how < 7:
            cell = {"kind": "jwe", "op": op, "entry": entry, "names": names, "style": "algorithms", "L": L}
            out = jwe_call(op, entry, alg, enc, None, "algorithms", L)
        else:
            cell = {"kind": "jwe", "op": op, "entry": entry, "names": names, "style": "default", "L": None}
            out = jwe_call(op, entry, alg, enc, None, "default", None)
        if out[0] == "skip":
            return None
        return cell, judge("jwe", op, entry, names, None, cell["style"], cell["L"], out)


jws_step = st.fixed_dictionaries({"rule": st.just("jws"), "alg": st.sampled_from(JWS_NAMES), "op": st.sampled_from(["sign", "verify"]),
                                  "entry": st.sampled_from(JWS_ENTRIES), "how": st.integers(0, 9), "L": st.lists(st.sampled_from(JWS_NAMES), min_size=1, max_size=4)})
jwe_step = st.fixed_dictionaries({"rule": st.just("jwe"), "alg": st.sampled_from([a for a in jweplan.ALGS if not a.startswith(("PBES2", "RSA1"))]),
                                  "enc": st.sampled_from(jweplan.ENCS), "op": st.sampled_from(["encrypt", "decrypt"]),
                                  "entry": st.sampled_from(["compact", "flattened", "general"]), "how": st.integers(0, 9),
                                  "L": st.lists(st.sampled_from(jweplan.ALL_NAMES), min_size=1, max_size=5)})
# algorithms= together with registry=: the call itself is not judged (the statement is silent on the conflict) but it must not change
# what the long-lived registry object allows afterwards
both_step = st.fixed_dictionaries({"rule": st.just("both"), "which": st.integers(0, 9), "op": st.sampled_from(["produce", "consume"]),
                                   "L": st.lists(st.sampled_from(JWS_NAMES + jweplan.ALL_NAMES), min_size=1, max_size=4)})
histories = st.fixed_dictionaries({
    "lists": st.lists(st.tuples(st.sampled_from(["jws", "jws7797", "jwe"]),
                                st.one_of(st.none(), st.lists(st.sampled_from(JWS_NAMES + jweplan.ALL_NAMES), min_size=1, max_size=5))), min_size=2, max_size=5),
    "steps": st.lists(st.one_of(jws_step, jws_step, jwe_step, jwe_step, both_step), min_size=2, max_size=30)})


def run_history(h):
    """Executes a history; returns [findings {key: [text, record]}, per-step info list]."""
    state = HistoryState([tuple(x) for x in h["lists"]])
    f = {}
    info = []
    for kind, L, e in state.broken:
        f[f"C05:history:allowed-algorithm-refused:{kind}:registry-construction:{type(e).__name__}"] = [
            f"a {kind} registry cannot be built from the allow-list {L!r}: {type(e).__name__}: {e}", {"history": {"lists": h["lists"], "steps": []}}]
    for n, st_ in enumerate(h["steps"]):
        res = state.step(st_)
        if res is None:
            info.append(None)
            continue
        cell, (verdict, finding) = res
        info.append([verdict, cell["kind"], cell["op"], cell["entry"], json.dumps(cell["names"]), cell["style"], json.dumps(cell["L"])])
        if finding:
            fk, text, _ = finding
            f.setdefault(fk.replace("C05:", "C05:history:"), [text + f" (after {n} earlier calls on shared registries)", {"history": {"lists": h["lists"], "steps": h["steps"][:n + 1]}}])
    return [f, info]


def replay_history(h) -> dict:
    return {k: v[0] for k, v in run_history(h)[0].items()}


def shards(tier):
    return ([(f"mj{i}", {"part": "matrix", "which": "jws", "i": i, "n": 3}) for i in range(3)] +
            [(f"me{i}", {"part": "matrix", "which": "jwe", "i": i, "n": 7}) for i in range(7)] +
            [(f"h{i}", {"part": "history"}) for i in range(6)])


def run_shard(ctx, spec):
    from gens.jose import setup_joserfc
    setup_joserfc()
    selftest.run()
    K()
    if spec["part"] == "matrix":
        for j, cell in enumerate(matrix(spec["which"])):
            if j % spec["n"] != spec["i"]:
                continue
            if ctx.expired():
                break
            verdict, finding = in_child(lambda: run_cell(cell))     # pristine process state per cell: the record is self-contained
            if verdict == "skip":
                continue
            if verdict == "dont_care":
                ctx.dontcare("empty allow-list with a recommended name")
                continue
            ctx.case((cell["kind"], cell["op"], cell["entry"], json.dumps(cell["names"]), cell["style"], cell["shape"]),
                     cls=[verdict, f"op:{cell['op']}", f"shape:{cell['shape']}", f"style:{cell['style']}"],
                     sample={k: cell[k] for k in ("kind", "op", "entry", "names", "style", "L")} if j % 997 == 0 else None)
            if finding:
                ctx.finding(finding[0], finding[1], finding[2])
    else:
        def body(h):
            f, info = in_child(lambda: run_history(h))
            lists_seen = set()
            for n, it in enumerate(info):
                ctx.count("machine-steps")
                if it is None:
                    ctx.count("both-arguments-steps")
                    continue
                lists_seen.add(it[6])
                ctx.case(("hist", n > 0, tuple(it[1:])), nontrivial=len(lists_seen) >= 2, cls=["history-step", it[0]],
                         sample={"lists": h["lists"], "steps": h["steps"][:4]} if n == 0 else None)
            for k, (text, rec) in f.items():
                ctx.finding(k, text, rec)
        drive(ctx, "history", histories, body, 220 if ctx.tier == "quick" else 2500)


def replay(rec) -> dict:
    from gens.jose import setup_joserfc
    setup_joserfc()
    K()
    if "history" in rec:
        return replay_history(rec["history"])
    verdict, finding = run_cell(rec)
    return {finding[0]: finding[1]} if finding else {}
