"""C06 - operations succeed only with a key suited to the algorithm and operation.

Every cell violates exactly one clause of the statement (so a dropped check cannot hide behind another one):
kty, curve, size, use, key_ops, private material; plus MAC-with-public-key confusion and the PEM/SSH-as-oct warning.
Consumption-side cells present the *same key material* with unsuitable metadata (or a hand-built token for size clauses), so the
only reason to fail is the clause under test.
"""
from __future__ import annotations
import copy
import json
import warnings

from hypothesis import strategies as st

from harness.core import HarnessError
from harness.hyp import drive
from gens import keys as gk, jweplan, pem as gpem
from gens.jose import jkey, ALL_JWS, exc_key
from ref import jws as rjws, jwe as rjwe, b64 as rb, keys as rk, selftest

LEVEL = "exploration"
RULE = ("cells = (algorithm in 14 JWS + 21 JWE algs) x (violated clause: wrong kty [each other key type], wrong curve, wrong size "
        "[AES-KW/GCM-KW/dir sizes 16/24/32/other, RSA 1024 / 1031 / 2047 bits for key encryption], use mismatch, key_ops lacking the operation, public key "
        "for a private operation) x operation x entry point (compact, flattened, general, RFC 7797 b64=false compact and JSON, "
        "jwt.encode/decode, add_recipient pre-attached key, sender_key) x key hand-over (key, key set, callable); key material is "
        "Hypothesis-generated per cell. Extra families: HS256/384/512 tokens MACed by the reference with each public encoding (PEM SPKI, "
        "PKCS1, DER, OpenSSH, JWK JSON text, raw numbers) of the verifier's RSA/EC/OKP key; every PEM/OpenSSH text encoding of "
        "asymmetric keys (also preceded by blanks) taken as a symmetric secret - OctKey.import_key, JWKRegistry.import_key, raw key or key callable of jws.* / jwt.* - must draw a warning that an ordinary secret on the same path does not get; ECDH-1PU sender keys (single or an entry of a key set named by skid) declared for signatures must be refused on both directions. Oracle: MUST_REJECT (any exception, nothing returned). A control with "
        "the suitable key runs per cell (success rate reported). distinct = (alg, clause, variant, op, entry, key mode).")
ASSUMPTIONS = ["DONT_CARE (statement silent): key_ops for dir and for ECDH agreement, RSA key size on decryption, 'alg' member of the key",
               "RSA: encrypt side needs encrypt or wrapKey, decrypt side decrypt or unwrapKey - only key_ops with neither count as unsuitable",
               "DER given to OctKey.import_key has no textual marker: no warning asserted"]
BUDGET_S = {"quick": 85, "thorough": 900}
FLOORS = {"quick": {"clause:kty": 800, "clause:curve": 150, "clause:size": 150, "clause:use": 400, "clause:key_ops": 400, "clause:private": 150, "clause:sender-curve": 100,
                    "mac-confusion": 300, "oct-import-warning": 60, "control:ok": 500},
          "thorough": {"clause:kty": 5000}}

JWS_ALGS = gk.JWS_ALGS
JWE_ALGS = jweplan.ALGS


def need(alg):
    """(kty, curve-or-size) the algorithm requires."""
    if alg.startswith("HS"):
        return ("oct", None)
    if alg[:2] in ("RS", "PS") or alg in rjwe.RSA_ALGS:
        return ("RSA", None)
    if alg in gk.ES_CRV:
        return ("EC", gk.ES_CRV[alg])
    if alg == "EdDSA":
        return ("OKP", "Ed25519")
    if alg in rjwe.KW_SIZE:
        return ("oct", rjwe.KW_SIZE[alg])
    if alg in rjwe.GCMKW_SIZE:
        return ("oct", rjwe.GCMKW_SIZE[alg])
    if alg == "dir":
        return ("oct", 16)  # with enc A128GCM
    if alg in rjwe.PBES2:
        return ("oct", None)
    return ("ECDH", "P-256")


def make_key(spec, seed: int):
    """spec: ('oct', size) | ('RSA', bits) | ('EC', crv) | ('OKP', crv)."""
    import hashlib
    h = hashlib.sha512(str(seed).encode()).digest()
    kty, p = spec
    if kty == "oct":
        n = p or 32
        return {"kty": "oct", "k": (h * 2)[:n]}
    if kty == "RSA":
        pool = [k for k in gk.rsa_pool() if k["bits"] == (p or 2048)]
        k = pool[seed % len(pool)]
        return {a: b for a, b in k.items() if a != "bits"}
    if kty == "EC":
        from ref.ec import CURVES
        return gk.ec_from_d(p, int.from_bytes(h, "big") % (CURVES[p].n - 1) + 1)
    from ref.okp import OKP_SIZES
    return gk.okp_from_seed(p, (h * 2)[:OKP_SIZES[p]])


def suitable_spec(alg):
    kty, p = need(alg)
    if kty == "ECDH":
        return ("EC", "P-256")
    if kty == "oct" and p is None:
        return ("oct", 32)
    if kty == "RSA":
        return ("RSA", 2048)
    return (kty, p)


def violations(alg, op):
    """Yield (clause, variant, keyspec, params, private) for cells violating exactly one clause."""
    kty, p = need(alg)
    good = suitable_spec(alg)
    jws = alg in JWS_ALGS
    # --- kty
    for other in [("oct", 32), ("RSA", 2048), ("EC", "P-256"), ("OKP", "Ed25519"), ("OKP", "X25519")]:
        o_kty = other[0]
        if kty == "ECDH":
            if o_kty in ("EC",) or other == ("OKP", "X25519"):
                continue
        elif o_kty == kty:
            continue
        if kty == "OKP" and other == ("OKP", "X25519"):
            continue
        yield ("kty", f"{other[0]}:{other[1]}", other, None, True)
    # --- curve
    if kty == "EC":
        for c in ["P-256", "P-384", "P-521", "secp256k1"]:
            if c != p:
                yield ("curve", c, ("EC", c), None, True)
    if kty == "OKP":
        for c in ["X25519", "X448"]:
            yield ("curve", c, ("OKP", c), None, True)
    if kty == "ECDH":
        yield ("curve", "Ed25519", ("OKP", "Ed25519"), None, True)   # an Edwards key cannot do ECDH
    # --- size
    if kty == "oct" and p is not None:
        for n in (16, 24, 32, 15, 33, 48):
            if n != p:
                yield ("size", str(n), ("oct", n), None, True)
    if alg in rjwe.RSA_ALGS and op == "encrypt":
        yield ("size", "1024", ("RSA", 1024), None, True)
        yield ("size", "2047", ("RSA", 2047), None, True)     # one bit short of the minimum (and not a whole number of octets)
        yield ("size", "1031", ("RSA", 1031), None, True)
    # --- use
    yield ("use", "enc" if jws else "sig", good, {"use": "enc" if jws else "sig"}, True)
    # ... also when the key states its operations as well (consistent with its use): the use still decides
    yield ("use", "enc+key_ops" if jws else "sig+key_ops", good,
           {"use": "enc", "key_ops": ["encrypt", "decrypt", "wrapKey", "unwrapKey", "deriveKey", "deriveBits"]} if jws else {"use": "sig", "key_ops": ["sign", "verify"]}, True)
    # --- key_ops
    required = {"sign": ["sign"], "verify": ["verify"]}.get(op)
    if required is None:
        if alg in rjwe.RSA_ALGS:
            required = ["encrypt", "wrapKey"] if op == "encrypt" else ["decrypt", "unwrapKey"]
        elif alg in rjwe.KW_SIZE or alg in rjwe.GCMKW_SIZE:
            required = ["wrapKey", "encrypt"] if op == "encrypt" else ["unwrapKey", "decrypt"]
        elif alg in rjwe.PBES2:
            required = ["deriveKey", "deriveBits"]
    if required:
        pool = ["sign", "verify"] if jws else ["encrypt", "decrypt", "wrapKey", "unwrapKey", "deriveKey", "deriveBits"]
        lacking = [o for o in pool if o not in required]
        for ops in ([lacking[0]], lacking, []):
            if ops == [] and not jws:
                pass
            yield ("key_ops", ",".join(ops) or "empty", good, {"key_ops": ops}, True)
    # --- both ECDH parties on one curve: the sender key (ECDH-1PU) on another curve / of another key type
    if alg in rjwe.ECDH_1PU and op == "encrypt":
        for sspec in (("EC", "P-384"), ("EC", "secp256k1"), ("OKP", "X25519"), ("OKP", "Ed25519"), ("RSA", 2048), ("oct", 32)):
            yield ("sender-curve", f"{sspec[0]}:{sspec[1]}", good, {"_sender": list(sspec)}, True)
        # the sender key is a key of the JWE operation too: declared for signatures it is unsuitable
        yield ("sender-use", "sig", good, {"_sender_use": "sig"}, True)
        # ... also when it is an entry of a sender key set that the skid header names
        yield ("sender-use", "sig-in-set", good, {"_sender_use": "sig", "_sender_set": True}, True)
    if alg in rjwe.ECDH_1PU and op == "decrypt":
        yield ("sender-use", "sig", good, {"_sender_use": "sig"}, True)
        yield ("sender-use", "sig-in-set", good, {"_sender_use": "sig", "_sender_set": True}, True)
    # --- private material
    if op in ("sign", "decrypt") and kty != "oct":
        yield ("private", "public-key", good, None, False)


# ------------------------------------------------------------------ calls
def keyarg(obj, keymode, kid="k1"):
    from joserfc.jwk import KeySet
    if keymode == "key":
        return obj
    if keymode == "callable":
        return lambda o: obj
    return KeySet([obj])


def jws_produce(alg, entry, key, keymode):
    from joserfc import jws, jwt, rfc7797
    ka = keyarg(key, keymode)
    hdr = {"alg": alg}
    if entry == "compact":
        return jws.serialize_compact(hdr, b"payload", ka, algorithms=ALL_JWS)
    if entry == "flattened":
        return jws.serialize_json({"protected": hdr}, b"payload", ka, algorithms=ALL_JWS)
    if entry == "general":
        return jws.serialize_json([{"protected": hdr}], b"payload", ka, algorithms=ALL_JWS)
    if entry == "rfc7797-compact":
        return rfc7797.serialize_compact({"alg": alg, "b64": False, "crit": ["b64"]}, b"payload", ka, algorithms=ALL_JWS)
    if entry == "rfc7797-json":
        return rfc7797.serialize_json({"protected": {"alg": alg, "b64": False, "crit": ["b64"]}}, b"payload", ka, algorithms=ALL_JWS)
    return jwt.encode(hdr, {"a": 1}, ka, algorithms=ALL_JWS)


def jws_consume(alg, entry, token, key, keymode):
    from joserfc import jws, jwt, rfc7797
    ka = keyarg(key, keymode)
    if entry == "compact":
        return jws.deserialize_compact(token, ka, algorithms=ALL_JWS)
    if entry in ("flattened", "general"):
        return jws.deserialize_json(token, ka, algorithms=ALL_JWS)
    if entry == "rfc7797-compact":
        return rfc7797.deserialize_compact(token, ka, algorithms=ALL_JWS)
    if entry == "rfc7797-json":
        return rfc7797.deserialize_json(token, ka, algorithms=ALL_JWS)
    return jwt.decode(token, ka, algorithms=ALL_JWS)


def jws_mint(alg, entry, refkey):
    b64flag = not entry.startswith("rfc7797")
    hdr = {"alg": alg} if b64flag else {"alg": alg, "b64": False, "crit": ["b64"]}
    ptext = json.dumps(hdr).encode()
    payload = b'{"a":1}' if entry == "jwt" else b"payload"
    if entry in ("compact", "jwt", "rfc7797-compact"):
        return rjws.make_compact(ptext, payload, alg, refkey, b64flag)
    sig = rjws.make_json_signature(ptext, None, payload, alg, refkey, b64flag)
    pm = rjws.payload_member(payload, b64flag)
    return {"payload": pm, **sig} if entry != "general" else {"payload": pm, "signatures": [sig]}


JWS_ENTRIES = ["compact", "flattened", "general", "rfc7797-compact", "rfc7797-json", "jwt"]
JWE_ENTRIES = ["compact", "flattened-attached", "flattened-param", "general-attached", "general-param", "jwt"]


def enc_for(alg):
    return "A128CBC-HS256" if alg.startswith("ECDH-1PU+") else "A128GCM"


def jwe_produce(alg, entry, key, keymode, sender, extra=None):
    from joserfc import jwe, jwt
    enc = enc_for(alg)
    hdr = {"alg": alg, "enc": enc, **(extra or {})}
    if alg in rjwe.PBES2:
        hdr["p2c"] = 8
    ka = keyarg(key, keymode)
    if entry == "compact":
        return jwe.encrypt_compact(hdr, b"pt", ka, algorithms=jweplan.ALL_NAMES, sender_key=sender)
    if entry == "jwt":
        return jwt.encode(hdr, {"a": 1}, ka, registry=jwe.JWERegistry(algorithms=jweplan.ALL_NAMES))
    cls = jwe.FlattenedJSONEncryption if entry.startswith("flattened") else jwe.GeneralJSONEncryption
    o = cls({"enc": enc}, b"pt")
    rh = {k: v for k, v in hdr.items() if k != "enc"}
    if entry.endswith("attached"):
        o.add_recipient(rh, key)
        return jwe.encrypt_json(o, None, algorithms=jweplan.ALL_NAMES, sender_key=sender)
    o.add_recipient(rh)
    return jwe.encrypt_json(o, ka, algorithms=jweplan.ALL_NAMES, sender_key=sender)


def jwe_consume(alg, entry, token, key, keymode, sender):
    from joserfc import jwe, jwt
    ka = keyarg(key, keymode)
    if entry == "compact":
        return jwe.decrypt_compact(token, ka, algorithms=jweplan.ALL_NAMES, sender_key=sender)
    if entry == "jwt":
        return jwt.decode(token, ka, registry=jwe.JWERegistry(algorithms=jweplan.ALL_NAMES))
    return jwe.decrypt_json(token, ka, algorithms=jweplan.ALL_NAMES, sender_key=sender)


def jwe_mint(alg, entry, refkey, sender_ref, seed, extra=None):
    enc = enc_for(alg)
    ser = "compact" if entry in ("compact", "jwt") else "flattened" if entry.startswith("flattened") else "general"
    rec = {"alg": alg, "key": gk.key_to_record(refkey), "header": None, "kid": None}
    if alg in rjwe.PBES2:
        rec["p2c"], rec["p2s"] = 8, "0011223344556677"
    plan = {"ser": ser, "enc": enc, "zip": None, "plaintext_hex": b'{"a":1}'.hex(), "aad_hex": None, "protected": {"alg": alg, "enc": enc, **(extra or {})},
            "unprotected": None, "recipients": [rec], "sender": gk.key_to_record(sender_ref) if sender_ref else None, "place": "protected"}
    tok, _ = jweplan.ref_encrypt(plan, seed, ("canonical", 0))
    return tok


def mint_wrong_size(alg, refkey, seed):
    """Token whose header names `alg` but whose key management used a key of another size (hand-built)."""
    from Crypto.Cipher import AES
    import hashlib
    enc = "A128GCM"
    k = refkey["k"]
    hdr = {"alg": alg, "enc": enc}
    cek = hashlib.sha256(b"cek%d" % seed).digest()[:16]
    iv = bytes(12)
    if len(k) not in (16, 24, 32):
        return None
    if alg == "dir":
        cek = k
        ek = b""
    elif alg in rjwe.KW_SIZE:
        ek = rjwe.aes_wrap(k, cek)
    else:
        c = AES.new(k, AES.MODE_GCM, nonce=bytes(12), mac_len=16)
        ek, t = c.encrypt_and_digest(cek)
        hdr["iv"], hdr["tag"] = rb.encode(bytes(12)), rb.encode(t)
    pseg = rb.encode(json.dumps(hdr, separators=(",", ":")).encode())
    c = AES.new(cek, AES.MODE_GCM, nonce=iv, mac_len=16)
    c.update(pseg.encode())
    ct, tag = c.encrypt_and_digest(b'{"a":1}')
    return ".".join([pseg, rb.encode(ek), rb.encode(iv), rb.encode(ct), rb.encode(tag)])


# ------------------------------------------------------------------ one cell
def run_cell(cell) -> dict:
    """cell: alg, op, entry, keymode, clause, variant, keyspec, params, private, seed. Returns findings; '_control' marks control result."""
    alg, op, entry, keymode = cell["alg"], cell["op"], cell["entry"], cell["keymode"]
    seed = cell["seed"]
    jws_ = alg in JWS_ALGS
    good_ref = make_key(suitable_spec(alg), seed)
    bad_ref = make_key(tuple(cell["keyspec"]), seed) if tuple(cell["keyspec"]) != suitable_spec(alg) else good_ref
    sender_ref = make_key(("EC", "P-256"), seed + 1) if alg in rjwe.ECDH_1PU else None
    bad_sender = good_sender = sender_extra = None
    if cell["clause"] == "sender-curve":
        bad_sender = jkey(make_key(tuple(cell["params"]["_sender"]), seed + 2), "dict", True)
        cell = dict(cell, params=None)
    elif cell["clause"] == "sender-use":
        from joserfc.jwk import KeySet
        priv = op == "encrypt"
        src = sender_ref if priv else rk.public_of(sender_ref)
        if cell["params"].get("_sender_set"):
            # a published-JWKS-like sender set: another key and the real sender key, which the skid header names
            osrc = make_key(("EC", "P-256"), seed + 5)
            osrc = osrc if priv else rk.public_of(osrc)
            bad_sender = KeySet([jkey(osrc, "dict", priv, {"kid": "s-other"}), jkey(src, "dict", priv, {"kid": "s-1", "use": cell["params"]["_sender_use"]})])
            good_sender = KeySet([jkey(osrc, "dict", priv, {"kid": "s-other"}), jkey(src, "dict", priv, {"kid": "s-1"})])
            sender_extra = {"skid": "s-1"}
        else:
            bad_sender = jkey(src, "dict", priv, {"use": cell["params"]["_sender_use"]})
        cell = dict(cell, params=None)
    sender_priv = jkey(sender_ref, "dict", True) if sender_ref else None
    sender_pub = jkey(rk.public_of(sender_ref), "dict", False) if sender_ref else None
    if good_sender is not None:
        sender_priv = sender_pub = good_sender
    params = cell["params"]
    f = {}
    where = f"{alg}:{op}:{entry}"

    def build(refkey, private, params):
        src = refkey if (private or refkey["kty"] == "oct") else rk.public_of(refkey)
        return jkey(src, "dict", private or refkey["kty"] == "oct", params)
    with warnings.catch_warnings():
        warnings.simplefilter("ignore")
        try:
            if op in ("sign", "encrypt"):
                # the natural key form for the operation: private for signing, public for encryption
                natural_private = op == "sign"
                want_private = cell["private"] if cell["clause"] == "private" else natural_private
                bad = build(bad_ref, want_private, params)
                good = build(good_ref, natural_private, None)
                if bad_sender is not None:
                    # same (suitable) recipient key for both calls; only the sender key differs
                    call = lambda k: jwe_produce(alg, entry, good, keymode, bad_sender if k is bad else sender_priv, sender_extra)  # noqa
                else:
                    call = (lambda k: jws_produce(alg, entry, k, keymode)) if jws_ else (lambda k: jwe_produce(alg, entry, k, keymode, sender_priv))
                token = None
            else:
                natural_private = op == "decrypt"
                want_private = cell["private"] if cell["clause"] == "private" else natural_private
                if cell["clause"] == "size":
                    token = mint_wrong_size(alg, bad_ref, seed)
                    if token is None or entry not in ("compact", "jwt"):
                        return {"_skip": "size cell needs an AES-sized key and a compact entry"}
                    if alg == "dir":
                        # a dir token with a wrong-size key: the 'control' is the same token with... no control possible
                        pass
                elif cell["clause"] in ("kty", "curve"):
                    return {"_skip": "consume-side kty/curve cells are vacuous (another key cannot verify anyway)"}
                else:
                    token = jws_mint(alg, entry, good_ref) if jws_ else jwe_mint(alg, entry, good_ref, sender_ref, seed, sender_extra)
                bad = build(bad_ref, want_private, params)
                good = build(good_ref, natural_private, None)
                if bad_sender is not None:
                    call = lambda k: jwe_consume(alg, entry, copy.deepcopy(token), good, keymode, bad_sender if k is bad else sender_pub)  # noqa
                else:
                    call = (lambda k: jws_consume(alg, entry, copy.deepcopy(token), k, keymode)) if jws_ else \
                           (lambda k: jwe_consume(alg, entry, copy.deepcopy(token), k, keymode, sender_pub))
        except Exception as e:
            # building an unsuitable key may itself be refused at import (e.g. use/key_ops contradiction): that is a rejection
            return {"_rejected_at_import": f"{type(e).__name__}"}
        # control with the suitable key
        if not (op in ("verify", "decrypt") and cell["clause"] == "size"):
            try:
                call(good)
                f["_control"] = "ok"
            except Exception as e:
                f["_control"] = f"fail:{type(e).__name__}"
        try:
            r = call(bad)
        except Exception:
            return f
        f[f"C06:unsuitable-key-accepted:{cell['clause']}:{where.split(':')[1]}:{entry}:{alg if cell['clause'] in ('size', 'curve', 'kty') else ('jws' if jws_ else 'jwe')}"] = \
            (f"{op} with alg {alg} via {entry} ({keymode}) succeeded although the key violates '{cell['clause']}' "
             f"({cell['variant']}; key {cell['keyspec']}, params {params}, private={cell['private']})")
    return f


def all_cells():
    for alg in JWS_ALGS:
        for op in ("sign", "verify"):
            for clause, variant, spec, params, private in violations(alg, op):
                for entry in JWS_ENTRIES:
                    for keymode in ("key", "keyset", "callable"):
                        yield {"alg": alg, "op": op, "entry": entry, "keymode": keymode, "clause": clause, "variant": variant,
                               "keyspec": list(spec), "params": params, "private": private}
    for alg in JWE_ALGS:
        for op in ("encrypt", "decrypt"):
            for clause, variant, spec, params, private in violations(alg, op):
                for entry in JWE_ENTRIES:
                    if entry == "jwt" and alg in rjwe.ECDH_1PU:
                        continue
                    if op == "decrypt" and entry.endswith("param"):
                        continue
                    for keymode in (("key",) if entry.endswith("attached") else ("key", "keyset", "callable")):
                        yield {"alg": alg, "op": op, "entry": entry, "keymode": keymode, "clause": clause, "variant": variant,
                               "keyspec": list(spec), "params": params, "private": private}


# ------------------------------------------------------------------ MAC confusion and oct import warning
def public_encodings(refkey):
    pub = rk.public_of(refkey)
    out = {"pem-spki": gpem.to_pem(pub, False), "der-spki": gpem.to_pem(pub, False, der=True),
           "jwk-json": json.dumps(rk.export_jwk(pub, private=False)).encode(),
           "jwk-json-compact": json.dumps(rk.export_jwk(pub, private=False), separators=(",", ":")).encode()}
    try:
        out["openssh"] = gpem.to_pem(pub, False, fmt="openssh")
    except Exception:
        pass
    if refkey["kty"] == "RSA":
        out["pem-pkcs1"] = gpem.to_pem(pub, False, fmt="pkcs1")
        out["raw-n"] = pub["n"].to_bytes((pub["n"].bit_length() + 7) // 8, "big")
    if refkey["kty"] == "EC":
        from ref.ec import CURVES
        c = CURVES[refkey["crv"]]
        out["raw-point"] = b"\x04" + pub["x"].to_bytes(c.size, "big") + pub["y"].to_bytes(c.size, "big")
    if refkey["kty"] == "OKP":
        out["raw-x"] = pub["x"]
    return out


def run_confusion(case) -> dict:
    from joserfc import jws, jwt
    refkey = make_key(tuple(case["keyspec"]), case["seed"])
    pubobj = jkey(rk.public_of(refkey), case["form"], False)
    encs = public_encodings(refkey)
    f = {}
    secret = encs.get(case["encoding"])
    if secret is None:
        return {"_skip": "n/a"}
    hs = case["hs"]
    native = {"RSA": ["RS256", "PS256"], "EC": [a for a, c in gk.ES_CRV.items() if c == refkey.get("crv")], "OKP": ["EdDSA"]}[refkey["kty"]]
    hdr = {"alg": hs, "typ": "JWT"}
    tok = rjws.make_compact(json.dumps(hdr).encode(), b'{"admin":true}', hs, {"kty": "oct", "k": secret})
    algs = [hs] + native
    from joserfc.jwk import KeySet
    calls = {
        "deserialize_compact": lambda: jws.deserialize_compact(tok, pubobj, algorithms=algs),
        "deserialize_compact-all": lambda: jws.deserialize_compact(tok, pubobj, algorithms=ALL_JWS),
        "jwt.decode": lambda: jwt.decode(tok, pubobj, algorithms=algs),
        "keyset": lambda: jws.deserialize_compact(tok, KeySet([pubobj]), algorithms=algs),
        "callable": lambda: jws.deserialize_compact(tok, lambda o: pubobj, algorithms=algs),
        "json": lambda: jws.deserialize_json({"payload": tok.split(".")[1], "protected": tok.split(".")[0], "signature": tok.split(".")[2]}, pubobj, algorithms=algs),
    }
    with warnings.catch_warnings():
        warnings.simplefilter("ignore")
        for name, c in calls.items():
            try:
                c()
            except Exception:
                continue
            f[f"C06:mac-keyed-with-public-encoding-accepted:{refkey['kty']}:{name}"] = \
                f"{name} accepted an {hs} token MACed with the {case['encoding']} encoding of the verifier's {refkey['kty']} public key"
    return f


def text_encodings(refkey):
    out = {}
    priv = refkey
    pub = rk.public_of(refkey)
    out["pem-pkcs8-private"] = gpem.to_pem(priv, True)
    out["pem-pkcs8-encrypted"] = gpem.to_pem(priv, True, password=b"pw")
    out["pem-spki-public"] = gpem.to_pem(pub, False)
    if refkey["kty"] in ("RSA", "EC"):
        out["pem-traditional-private"] = gpem.to_pem(priv, True, fmt="traditional")
    if refkey["kty"] == "RSA":
        out["pem-pkcs1-public"] = gpem.to_pem(pub, False, fmt="pkcs1")
    if refkey["kty"] in ("RSA", "EC") and refkey.get("crv") != "secp256k1" or (refkey["kty"] == "OKP" and refkey["crv"] == "Ed25519"):
        out["openssh-private"] = gpem.to_pem(priv, True, fmt="openssh")
        out["openssh-public"] = gpem.to_pem(pub, False, fmt="openssh")
    return out


def run_warning(case) -> dict:
    from joserfc.jwk import OctKey
    refkey = make_key(tuple(case["keyspec"]), case["seed"])
    encs = text_encodings(refkey)
    f = {}
    # the same text as it comes out of a file or an environment variable: preceded by a line break or blanks
    encs = {**encs, **{n + "+leading-newline": b"\n" + d for n, d in encs.items()}, **{n + "+leading-blanks": b"  \r\n" + d for n, d in encs.items()}}
    from joserfc import jws, jwt
    from joserfc.jwk import JWKRegistry
    tok = rjws.make_compact(b'{"alg":"HS256"}', b'{"a":1}', "HS256", {"kty": "oct", "k": b"irrelevant-secret-irrelevant-secret"})
    # every way a caller's octets / text can become a symmetric key; the raw-key paths of the JWS / JWT functions included
    paths = {"OctKey.import_key": lambda v: OctKey.import_key(v),
             "JWKRegistry.import_key": lambda v: JWKRegistry.import_key(v, "oct"),
             "jws.serialize_compact(raw key)": lambda v: jws.serialize_compact({"alg": "HS256"}, b"x", v),
             "jws.serialize_compact(callable -> raw key)": lambda v: jws.serialize_compact({"alg": "HS256"}, b"x", lambda obj: v),
             "jws.deserialize_compact(raw key)": lambda v: jws.deserialize_compact(tok, v),
             "jwt.encode(raw key)": lambda v: jwt.encode({"alg": "HS256"}, {"a": 1}, v),
             "jwt.decode(raw key)": lambda v: jwt.decode(tok, v)}

    def warned(fn, v):
        with warnings.catch_warnings(record=True) as w:
            warnings.simplefilter("always")
            try:
                fn(v)
            except Exception:
                pass
        return {(x.category.__name__, str(x.message)) for x in w}
    # what the same call says about an ordinary secret: a warning every raw key gets does not flag anything
    ordinary = {pn: {a: warned(fn, b"an-ordinary-shared-secret-of-some-length".decode() if a else b"an-ordinary-shared-secret-of-some-length") for a in (False, True)}
                for pn, fn in paths.items()}
    for name, data in encs.items():
        for as_str in (False, True):
            for pn, fn in paths.items():
                if pn != "OctKey.import_key" and ("+leading" in name) != (case["seed"] % 2 == 0):
                    continue
                raised = False
                with warnings.catch_warnings(record=True) as w:
                    warnings.simplefilter("always")
                    try:
                        fn(data.decode() if as_str else data)
                    except Exception as e:
                        # the token is not keyed with this text: a failed verification says nothing; a refused import / signature is a flag
                        raised = "deserialize" not in pn and "decode" not in pn
                got = {(x.category.__name__, str(x.message)) for x in w}
                if not raised and not (got - ordinary[pn][as_str]):
                    f[f"C06:asymmetric-key-text-imported-as-oct-without-warning:{name.split('+')[0]}:{pn.split('(')[0]}"] = \
                        (f"{pn} took {name} text of a {refkey['kty']} {refkey.get('crv', '')} key ({data[:30]!r}...) as a symmetric secret without a warning "
                         f"(beyond what an ordinary secret gets: {sorted(ordinary[pn][as_str])!r})")
                f["_n"] = f.get("_n", 0) + 1
    return f


def shards(tier):
    return [(f"m{i:02d}", {"part": "matrix", "i": i, "n": 13}) for i in range(13)] + [("conf0", {"part": "confusion", "i": 0}), ("conf1", {"part": "confusion", "i": 1}),
                                                                                   ("warn", {"part": "warning"})]


def run_shard(ctx, spec):
    from gens.jose import setup_joserfc
    setup_joserfc()
    selftest.run()
    if spec["part"] == "matrix":
        cells = [c for j, c in enumerate(all_cells()) if j % spec["n"] == spec["i"]]
        rounds = 1 if ctx.tier == "quick" else 4

        def body(seeds):
            for j, cell in enumerate(cells):
                if ctx.expired():
                    return
                cell = dict(cell, seed=seeds[j % len(seeds)] + j)
                f = run_cell(cell)
                if "_skip" in f:
                    continue
                control = f.pop("_control", None)
                imp = f.pop("_rejected_at_import", None)
                ctx.case((cell["alg"], cell["clause"], cell["variant"], cell["op"], cell["entry"], cell["keymode"]),
                         cls=[f"clause:{cell['clause']}", f"op:{cell['op']}", f"entry:{cell['entry']}"] +
                             ([f"control:{control.split(':')[0]}"] if control else []) + (["rejected-at-import"] if imp else []),
                         sample={k: cell[k] for k in ("alg", "op", "entry", "keymode", "clause", "variant", "keyspec", "params", "private")} if j % 251 == 0 else None)
                if control and control.startswith("fail"):
                    ctx.count("control-failed:" + cell["alg"] + ":" + cell["op"] + ":" + control)
                for k, w in f.items():
                    ctx.finding(k, w, cell)
        drive(ctx, "matrix", st.lists(st.integers(0, 2**30), min_size=7, max_size=7), body, rounds)
    elif spec["part"] == "confusion":
        strat = st.fixed_dictionaries({
            "keyspec": st.sampled_from([["RSA", 2048], ["RSA", 1024], ["EC", "P-256"], ["EC", "P-384"], ["EC", "P-521"], ["EC", "secp256k1"],
                                        ["OKP", "Ed25519"], ["OKP", "Ed448"]]),
            "seed": st.integers(0, 2**30), "hs": st.sampled_from(["HS256", "HS384", "HS512"]), "form": st.sampled_from(["dict", "pem", "der"]),
            "encoding": st.sampled_from(["pem-spki", "der-spki", "jwk-json", "jwk-json-compact", "openssh", "pem-pkcs1", "raw-n", "raw-point", "raw-x"])})

        def body(case):
            f = run_confusion(case)
            if "_skip" in f:
                return
            ctx.case(("conf", case["keyspec"], case["hs"], case["encoding"], case["form"]), cls="mac-confusion", sample=case, n=6)
            for k, w in f.items():
                ctx.finding(k, w, dict(case, kind="confusion"))
        drive(ctx, "confusion", strat, body, 400 if ctx.tier == "quick" else 1500)
    else:
        strat = st.fixed_dictionaries({"keyspec": st.sampled_from([["RSA", 2048], ["RSA", 1024], ["EC", "P-256"], ["EC", "P-384"], ["EC", "P-521"],
                                                                   ["EC", "secp256k1"], ["OKP", "Ed25519"], ["OKP", "Ed448"], ["OKP", "X25519"], ["OKP", "X448"]]),
                                       "seed": st.integers(0, 2**30)})

        def body(case):
            f = run_warning(case)
            n = f.pop("_n", 0)
            ctx.case(("warn", case["keyspec"], case["seed"]), cls="oct-import-warning", sample=case, n=max(n, 1))
            ctx.count("oct-import-warning", max(n - 1, 0))
            for k, w in f.items():
                ctx.finding(k, w, dict(case, kind="warning"))
        drive(ctx, "warning", strat, body, 40 if ctx.tier == "quick" else 400)


def replay(rec) -> dict:
    from gens.jose import setup_joserfc
    setup_joserfc()
    if rec.get("kind") == "confusion":
        f = run_confusion(rec)
    elif rec.get("kind") == "warning":
        f = run_warning(rec)
    else:
        f = run_cell(rec)
    return {k: v for k, v in f.items() if not k.startswith("_")}
