"""C07 - JWS octets on the wire agree with an independent implementation of RFC 7515/7518/8037/8812/7797,
in both directions, including arbitrary spellings of the protected header JSON."""
from __future__ import annotations
import copy
import json
import os

from hypothesis import strategies as st

from harness.core import HarnessError
from harness.hyp import drive
from gens import jwsplan as jp, keys as gk
from gens.jose import exc_key, jkey, KEYFORMS, ALL_JWS
from gens.spelling import spelling
from ref import jws as rjws, keys as rk, selftest

LEVEL = "exploration"
RULE = ("direction A: joserfc signs a generated plan (14 algs x key classes x 3 serializations x b64 x header placement x "
        "payload class; key imported from JWK/PEM/DER), the strict reference verifier - given only key.as_dict(private=False) "
        "parsed by a strict RFC 7517/7518 parser, or the JWK exported from a key object built from the public PEM / DER alone - must accept and recover payload and headers. direction B: the reference "
        "signs (RFC 6979 ECDSA, PSS salt=hLen) with a generated spelling of the protected header (whitespace, member order, "
        "\\u escapes, raw UTF-8) and joserfc must verify and recover payload and headers. Published example tokens are "
        "explicit cases. non-trivial: every case; distinct = (direction, plan label, spelling style, key class).")
ASSUMPTIONS = ["the reference (/verif/ref) is correct: self-tested on RFC 7515/7520/7797/8037 vectors at start-up",
               "primitives of pycryptodome / hashlib / pure-Python EC are correct"]
BUDGET_S = {"quick": 85, "thorough": 1200}
FLOORS = {"quick": {"dir:A": 600, "dir:B": 600, "spelling:escaped": 60, "spelling:whitespace": 60},
          "thorough": {"dir:A": 8000, "dir:B": 8000}}

case_strategy = st.fixed_dictionaries({
    "dir": st.sampled_from(["A", "B"]),
    "plan": jp.plans(utf8_only=True),
    "form": st.sampled_from(KEYFORMS),
    "spellings": st.lists(spelling, min_size=3, max_size=3),
})


def cells():
    from gens.spelling import STYLES
    for d in ("A", "B"):
        for alg in gk.JWS_ALGS:
            for ser in jp.SERS:
                for b64 in ([None] if ser == "general" else [None, True, False]):
                    for style in (STYLES if d == "B" else ["-"]):
                        yield (d, alg, ser, b64, style)


def shards(tier):
    out = [("vectors", {"part": "vectors"})] + [(f"w{i:02d}", {"part": "gen", "i": i}) for i in range(16)]
    if tier == "thorough":
        out += [(f"cells{i:02d}", {"part": "cells", "i": i, "n": 16}) for i in range(16)]
    return out


def _members_equal(ref_members, plan, f, tag, kidmode_members):
    for i, (m, info) in enumerate(zip(kidmode_members, ref_members)):
        p, h = m
        if (info["protected"] or {}) != (p or {}):
            f[f"C07:A:protected-header-differs:{tag}"] = f"reference parsed protected {info['protected']!r}, given {p!r}"
        if (info["header"] or {}) != (h or {}):
            f[f"C07:A:unprotected-header-differs:{tag}"] = f"reference sees unprotected {info['header']!r}, given {h!r}"


def run_case(case) -> dict:
    plan = case["plan"]
    payload = bytes.fromhex(plan["payload_hex"])
    tag = f"{plan['ser']}:b64={plan['b64']}"
    f: dict = {}
    multi = len(plan["members"]) > 1
    keymode = "keyset_kid" if multi else "key"
    if case["dir"] == "A":
        given = jp._with_kid(plan, keymode)
        try:
            token, _ = jp.jose_sign(plan, keymode, case["form"])
        except Exception as e:
            return {f"C07:A:sign-raises:{tag}:{exc_key(e)}": f"{type(e).__name__}: {e}"}
        # hand over only the exported public JWK(s)
        table = {}
        kids = jp._kids(plan)
        for m, kid in zip(plan["members"], kids):
            jk = jkey(gk.key_from_record(m["key"]), case["form"], True)
            pub = jk.as_dict(private=False) if m['key']['kty'] != 'oct' else jk.as_dict()  # a MAC verifier needs the secret
            if m["key"]["kty"] != "oct" and len(payload) % 2:
                # the verifier's JWK as the signer's counterpart publishes it: built from the public PEM / DER alone (a key object that
                # never saw private members), then exported
                pub = jkey(gk.key_from_record(m["key"]), ("pem", "der")[len(payload) // 2 % 2], False).as_dict()
            try:
                table[kid] = rk.parse_jwk(json.loads(json.dumps(pub)), strict=True)
            except rk.JWKError as e:
                return {f"C07:A:exported-public-jwk-not-conformant:{m['key']['kty']}": f"as_dict(private=False) = {pub!r}: {e}"}
            if rk.is_private(table[kid]) and table[kid]["kty"] != "oct":
                f["C07:A:public-export-has-private-members"] = repr(pub)

        def keyres(hdr):
            kid = hdr.get("kid")
            if kid in table:
                return table[kid]
            if len(table) == 1:
                return next(iter(table.values()))
            raise rjws.Reject("no key")
        try:
            if isinstance(token, str) and plan["b64"] is False and ".." in token:
                r = jp.ref_verify(token, plan, strict=True, detached_payload=payload, keyres=keyres)
            else:
                r = jp.ref_verify(token, plan, strict=True, keyres=keyres)
        except rjws.Reject as e:
            return {f"C07:A:reference-rejects-joserfc-token:{tag}:{plan['members'][0]['alg'] if not multi else 'multi'}":
                    f"independent verifier refuses the token joserfc produced: {e}; token={str(token)[:200]}"}
        if r["payload"] != payload:
            f[f"C07:A:payload-differs:{tag}"] = f"reference recovers {r['payload'][:40]!r}, signed {payload[:40]!r}"
        _members_equal(r["members"], plan, f, tag, given)
        return f
    # ---- direction B
    plan = jp.materialize(plan, keymode)
    try:
        token = jp.ref_sign(plan, case["spellings"])
    except UnicodeDecodeError:
        return {"dont_care": "b64=false non-UTF-8"}
    if isinstance(token, str) and plan["b64"] is False:
        body = token.split(".")[1] if token.count(".") == 2 else None
        if body is None or jp.payload_class(payload) != "urlsafe":
            token = jp.ref_sign(plan, case["spellings"], detached=True)
    # sanity: the reference accepts its own token
    try:
        rr = jp.ref_verify(token, plan, strict=True, detached_payload=payload)
        assert rr["payload"] == payload
    except (rjws.Reject, AssertionError) as e:
        raise HarnessError(f"reference refuses its own token: {e} {case!r}")
    try:
        obj = jp.jose_verify(copy.deepcopy(token), plan, keymode, case["form"], private=False)
    except Exception as e:
        styles = sorted({s[0] for s in case["spellings"][:len(plan["members"])]})
        return {f"C07:B:joserfc-rejects-reference-token:{tag}:{exc_key(e)}":
                f"joserfc refuses an RFC-conformant token (spelling {styles}): {type(e).__name__}: {e}; token={str(token)[:300]}"}
    if obj.payload != payload:
        f[f"C07:B:payload-differs:{tag}"] = f"joserfc returns {obj.payload[:40]!r}, signed {payload[:40]!r}"
    for i, m in enumerate(plan["members"]):
        want_p, want_h = m["protected"] or {}, m["header"] or {}
        if plan["ser"] == "compact":
            got_p, got_h = obj.protected, {}
        else:
            got_p, got_h = obj.members[i].protected or {}, obj.members[i].header or {}
        if got_p != want_p or got_h != want_h:
            f[f"C07:B:header-differs:{tag}"] = f"joserfc parsed protected={got_p!r} header={got_h!r}; signed {want_p!r} / {want_h!r}"
    # the application edits the header of the object it got back (or re-issues it with a key set, which records a kid there); the same
    # foreign token, verified again, yields the signed header again
    if not f:
        try:
            for d in ([getattr(obj, "protected", None)] + [x for mm in (getattr(obj, "members", None) or []) for x in (mm.protected, mm.header)]):
                if isinstance(d, dict):
                    d["kid"] = "edited-by-the-application"
                    d["x-note"] = 1
            obj2 = jp.jose_verify(copy.deepcopy(token), plan, keymode, case["form"], private=False)
            for i, m in enumerate(plan["members"]):
                got_p = obj2.protected if plan["ser"] == "compact" else (obj2.members[i].protected or {})
                if got_p != (m["protected"] or {}):
                    f[f"C07:B:second-verification-header-differs:{tag}"] = f"verifying the same token again reports protected={got_p!r}; signed {m['protected']!r}"
        except Exception as e:
            f[f"C07:B:second-verification-raises:{tag}:{exc_key(e)}"] = f"the same conformant token is refused the second time: {type(e).__name__}: {e}"
    # two-step API (extract, then validate) with another token extracted in between: the signing input is that of THIS token
    if isinstance(token, str) and plan["b64"] is None and not f:
        from joserfc import jws
        try:
            o1 = jws.extract_compact(token.encode())
            jws.extract_compact(rjws.make_compact(b'{"alg":"HS256"}', b"an unrelated token", "HS256", {"kty": "oct", "k": b"k" * 32}).encode())
            ok = jws.validate_compact(o1, jp.jose_keyarg(plan, keymode, False, case["form"], "verify"), algorithms=ALL_JWS)
            if not ok or o1.payload != payload:
                f[f"C07:B:extract-then-validate-fails:{tag}"] = "extract_compact(token); extract_compact(other); validate_compact(first) does not confirm the first token"
        except Exception as e:
            f[f"C07:B:extract-then-validate-raises:{tag}:{exc_key(e)}"] = f"{type(e).__name__}: {e}"
    return f


def run_vectors(ctx):
    """Published example tokens verify in joserfc (explicit cases)."""
    from joserfc import jws
    from joserfc.jwk import OctKey, JWKRegistry
    V = os.path.join(os.path.dirname(selftest.__file__), "vectors")
    ex = json.load(open(os.path.join(V, "jws_examples.json")))
    for t in ex["tests"]:
        if "secret" in t:
            key = OctKey.import_key(t["secret"])
        else:
            data = open(os.path.join(V, "keys", t["public_key"]), "rb").read()
            kty = "OKP" if "okp" in t["public_key"] else "EC" if "ec-" in t["public_key"] else "RSA"
            key = JWKRegistry.import_key(json.loads(data) if t["public_key"].endswith(".json") else data, kty)
        for form in ("compact", "flattened_json", "general_json"):
            if form not in t:
                continue
            try:
                obj = (jws.deserialize_compact(t[form], key, algorithms=ALL_JWS) if form == "compact"
                       else jws.deserialize_json(t[form], key, algorithms=ALL_JWS))
                ok = obj.payload == ex["payload"].encode()
            except Exception as e:
                ok = False
                ctx.finding(f"C07:vector-rejected:{t['name']}", f"published example {t['name']} ({form}) refused: {type(e).__name__}: {e}",
                            {"vector": t["name"], "form": form})
                continue
            if not ok:
                ctx.finding(f"C07:vector-payload:{t['name']}", "payload differs", {"vector": t["name"], "form": form})
            ctx.case(("vector", t["name"], form), cls="vectors", sample={"vector": t["name"], "form": form})


def run_shard(ctx, spec):
    from gens.jose import setup_joserfc
    setup_joserfc()
    selftest.run()
    if spec["part"] == "vectors":
        run_vectors(ctx)
        return

    def body(case):
        plan = case["plan"]
        f = run_case(case)
        if "dont_care" in f:
            ctx.dontcare(f["dont_care"])
            return
        kc = tuple(gk.describe(gk.key_from_record(m["key"])) for m in plan["members"])
        styles = tuple(s[0] for s in case["spellings"][:len(plan["members"])]) if case["dir"] == "B" else ()
        ctx.case((case["dir"], jp.plan_label(plan), styles, kc, case["form"]),
                 cls=[f"dir:{case['dir']}", f"ser:{plan['ser']}", f"b64:{plan['b64']}"] + [f"alg:{m['alg']}" for m in plan["members"]]
                 + [f"spelling:{s}" for s in styles] + [f"key:{k}" for k in kc if "short" in k or "lead0" in k],
                 sample={"dir": case["dir"], "ser": plan["ser"], "b64": plan["b64"], "algs": [m["alg"] for m in plan["members"]],
                         "spelling": styles, "protected": [m["protected"] for m in plan["members"]], "payload_hex": plan["payload_hex"][:40]})
        for k, w in f.items():
            ctx.finding(k, w, case)
    if spec["part"] == "cells":
        for j, (d, alg, ser, b64, style) in enumerate(cells()):
            if j % spec["n"] != spec["i"] or ctx.expired():
                continue
            sp = st.tuples(st.just(style if style != "-" else "canonical"), st.integers(0, 2**32))
            strat = st.fixed_dictionaries({"dir": st.just(d), "plan": jp.plans(sers=(ser,), algs=[alg], b64_choices=[b64], max_members=2, utf8_only=True),
                                           "form": st.sampled_from(KEYFORMS), "spellings": st.lists(sp, min_size=3, max_size=3)})
            drive(ctx, f"cell-{d}-{alg}-{ser}-{b64}-{style}", strat, body, 8)
            ctx.count("cells-enumerated")
        return
    drive(ctx, "wire", case_strategy, body, 110 if ctx.tier == "quick" else 1500)


def replay(rec) -> dict:
    from gens.jose import setup_joserfc
    setup_joserfc()
    if "vector" in rec:
        return {}
    f = run_case(rec)
    f.pop("dont_care", None)
    return f
