"""C08 - JWE octets on the wire agree with an independent implementation of RFC 7516/7518 and the implemented drafts,
in both directions, for arbitrary spellings of the protected header."""
from __future__ import annotations
import copy
import json
import os

from hypothesis import strategies as st

from harness.core import HarnessError
from harness.hyp import drive
from gens import jweplan as jp, keys as gk
from gens.jose import exc_key, KEYFORMS, ALL_JWS
from gens.spelling import spelling
from ref import b64 as rb, jwe as rjwe, keys as rk, selftest

LEVEL = "exploration"
RULE = ("direction A: joserfc encrypts a generated plan (21 algs x 8 encs x zip x 6 curves x 3 serializations x 1-4 recipients x AAD x "
        "apu/apv x alg placement), the strict reference decryptor (own RFC 3394, Concat KDF, PBES2, CBC-HMAC, raw DEFLATE, pure-Python "
        "ECDH) must recover the plaintext, and the token structure is checked (IV/tag/encrypted-key lengths per mode, complete raw "
        "DEFLATE stream, epk with exactly the public members, p2s >= 8 octets, p2c >= 1000 by default). direction B: the reference "
        "encrypts with generated CEK/IV/epk/salt and a generated spelling of the protected header (whitespace, member order, escapes), "
        "algorithm-specific members in the protected or per-recipient header, DEFLATE levels 0-9; joserfc must decrypt to the same "
        "plaintext, and the object it returned, amended in its protected header and encrypted again, must be opened by the reference. Published RFC 7520 / ECDH-1PU example tokens are explicit cases. non-trivial: every case; distinct = (direction, "
        "plan label, spelling style).")
ASSUMPTIONS = ["the reference (/verif/ref/jwe.py) is correct: self-tested on RFC 3394, RFC 7518 app. C, RFC 7520 section 5 and ECDH-1PU draft vectors at start-up",
               "pycryptodome AES/RSA primitives, hashlib PBKDF2/SHA-2 and `cryptography` ChaCha20-Poly1305 are correct"]
BUDGET_S = {"quick": 85, "thorough": 1200}
FLOORS = {"quick": {"dir:A": 800, "dir:B": 800, "spelling:whitespace": 80, "spelling:escaped": 80, "zip:DEF": 200},
          "thorough": {"dir:A": 8000, "dir:B": 8000}}

case_strategy = st.fixed_dictionaries({
    "dir": st.sampled_from(["A", "B"]),
    "plan": jp.plans(),
    "form": st.sampled_from(KEYFORMS),
    "spelling": spelling,
    "seed": st.integers(0, 2**32),
    "in_protected": st.booleans(),
    "zip_level": st.integers(0, 9),
})


def cells():
    for d in ("A", "B"):
        for alg in jp.ALGS:
            for enc in jp.ENCS:
                if alg.startswith("ECDH-1PU+") and enc not in jp.CBC:
                    continue
                for z in (False, True):
                    for ser in jp.SERS:
                        yield (d, alg, enc, z, ser)


def shards(tier):
    out = [("vectors", {"part": "vectors"})] + [(f"w{i:02d}", {"part": "gen"}) for i in range(16)]
    if tier == "thorough":
        out += [(f"cells{i:02d}", {"part": "cells", "i": i, "n": 16}) for i in range(16)]
    return out


def _structure(token, plan, f, tag):
    """Structural conformance of a joserfc-produced token."""
    if isinstance(token, str):
        segs = token.split(".")
        prot_seg, eks, iv, ct, tg = segs[0], [segs[1]], segs[2], segs[3], segs[4]
        rheaders = [None]
        unprot = None
    else:
        prot_seg, iv, ct, tg = token["protected"], token["iv"], token["ciphertext"], token["tag"]
        unprot = token.get("unprotected")
        if "recipients" in token:
            eks = [r.get("encrypted_key", "") for r in token["recipients"]]
            rheaders = [r.get("header") for r in token["recipients"]]
        else:
            eks = [token.get("encrypted_key", "")]
            rheaders = [token.get("header")]
    prot = json.loads(rb.decode(prot_seg, strict_bits=True))
    enc = plan["enc"]
    cek_len, iv_len = rjwe.ENCS[enc]
    if len(rb.decode(iv, strict_bits=True)) != iv_len:
        f[f"C08:A:iv-length:{enc}"] = f"IV of {len(rb.decode(iv))} octets for {enc}"
    want_tag = cek_len // 2 if enc in rjwe.CBC_HASH else 16
    if len(rb.decode(tg, strict_bits=True)) != want_tag:
        f[f"C08:A:tag-length:{enc}"] = f"tag of {len(rb.decode(tg))} octets for {enc}"
    for r, ek, rh in zip(plan["recipients"], eks, rheaders):
        alg = r["alg"]
        hdr = {**prot, **(unprot or {}), **(rh or {})}
        n = len(rb.decode(ek, strict_bits=True))
        key = gk.key_from_record(r["key"])
        if alg in rjwe.DIRECT:
            want = 0
        elif alg in rjwe.RSA_ALGS:
            want = (key["n"].bit_length() + 7) // 8
        elif alg in rjwe.GCMKW_SIZE:
            want = cek_len
        else:
            want = cek_len + 8
        if n != want:
            f[f"C08:A:encrypted-key-length:{alg}"] = f"encrypted key of {n} octets for {alg}/{enc}, expected {want}"
        if alg in rjwe.ECDH_ES or alg in rjwe.ECDH_1PU:
            epk = hdr.get("epk")
            wantm = {"kty", "crv", "x", "y"} if key["kty"] == "EC" else {"kty", "crv", "x"}
            if not isinstance(epk, dict) or set(epk) != wantm:
                f["C08:A:epk-members"] = f"epk = {epk!r}; expected exactly the members {sorted(wantm)}"
        if alg in rjwe.PBES2:
            p2s = rb.decode(hdr.get("p2s", ""))
            if len(p2s) < 8:
                f["C08:A:p2s-too-short"] = f"p2s of {len(p2s)} octets"
            if "p2c" not in r and not (isinstance(hdr.get("p2c"), int) and hdr["p2c"] >= 1000):
                f["C08:A:default-p2c"] = f"default p2c = {hdr.get('p2c')!r}"
        if alg in rjwe.GCMKW_SIZE:
            if len(rb.decode(hdr.get("iv", ""))) != 12 or len(rb.decode(hdr.get("tag", ""))) != 16:
                f["C08:A:gcmkw-iv-tag-length"] = f"iv/tag header members {hdr.get('iv')!r} {hdr.get('tag')!r}"


def run_case(case) -> dict:
    plan = case["plan"]
    # half of the plans with party information carry only one of apu / apv: the absent one is an empty, length-prefixed field of the KDF input
    if "apu" in plan["protected"] and case["seed"] % 4 >= 2:
        drop = "apu" if case["seed"] % 4 == 2 else "apv"
        plan = {**plan, "protected": {k: v for k, v in plan["protected"].items() if k != drop}}
        case = {**case, "plan": plan}
    pt = bytes.fromhex(plan["plaintext_hex"])
    algs = [r["alg"] for r in plan["recipients"]]
    tag = f"{plan['ser']}"
    f: dict = {}
    if case["dir"] == "A":
        try:
            # JSON serializations: now and then the object is encrypted twice (a template used again), the reference opens the second output
            tok = jp.jose_encrypt(plan, "attached", case["form"], times=2 if plan["ser"] != "compact" and len(plan["plaintext_hex"]) % 6 == 0 else 1)
        except Exception as e:
            return {f"C08:A:encrypt-raises:{tag}:{exc_key(e)}": f"{type(e).__name__}: {e}"}
        try:
            r = jp.ref_decrypt(tok, plan, strict=True, limit=None)
        except rjwe.Reject as e:
            key = "multi" if len(algs) > 1 else algs[0]
            why = str(e).split(":")[0][:40]
            return {f"C08:A:reference-rejects-joserfc-token:{key}:{why}":
                    f"independent decryptor refuses the token joserfc produced ({algs}, {plan['enc']}, zip={plan['zip']}): {e}"}
        if r["plaintext"] != pt:
            f[f"C08:A:plaintext-differs:{tag}"] = f"reference decrypts {r['plaintext'][:30]!r}; encrypted {pt[:30]!r}"
        try:
            _structure(tok, plan, f, tag)
        except ValueError as e:
            f[f"C08:A:token-not-canonical-base64url:{tag}"] = str(e)
        return f
    # direction B
    try:
        tok, parts = jp.ref_encrypt(plan, case["seed"], tuple(case["spelling"]), additions_in_protected=case["in_protected"], zip_level=case["zip_level"])
        rr = jp.ref_decrypt(tok, plan, strict=True, limit=None)
        assert rr["plaintext"] == pt
    except (rjwe.Reject, AssertionError) as e:
        raise HarnessError(f"reference cannot decrypt its own token: {e!r} {case!r}")
    try:
        obj = jp.jose_decrypt(copy.deepcopy(tok), plan, "all", case["form"])
    except Exception as e:
        if len(pt) > 256000:
            return {"dont_care": "plaintext above the decompression limit"}
        key = "multi" if len(algs) > 1 else algs[0]
        return {f"C08:B:joserfc-rejects-reference-token:{key}:{exc_key(e)}":
                f"joserfc refuses a conformant JWE ({algs}, {plan['enc']}, zip={plan['zip']}, spelling {case['spelling'][0]}, "
                f"alg-specific members in {'protected' if case['in_protected'] else 'recipient'} header): {type(e).__name__}: {e}; token={str(tok)[:300]}"}
    if obj.plaintext != pt:
        f[f"C08:B:plaintext-differs:{tag}"] = f"joserfc decrypts {obj.plaintext[:30]!r}; encrypted {pt[:30]!r}"
        return f
    # open - amend - re-seal: the object joserfc returned for a foreign (arbitrarily spelled) token is encrypted again after a protected
    # member was changed; the reference must open the result and see the amended header
    if not isinstance(tok, str) and not case["in_protected"] and plan["zip"] is None and len(pt) <= 256000:
        from joserfc import jwe
        from gens.jose import jkey
        try:
            obj.protected["cty"] = "amended"
            for r, rec in zip(obj.recipients, plan["recipients"]):
                kref = gk.key_from_record(rec["key"])
                r.recipient_key = jkey(kref if kref["kty"] == "oct" else rk.public_of(kref), "dict", kref["kty"] == "oct")
                r.sender_key = None
                if r.header:
                    for m in ("epk", "iv", "tag", "p2s", "p2c"):
                        r.header.pop(m, None)
            spriv = jkey(gk.key_from_record(plan["sender"]), "dict", True) if plan["sender"] else None
            tok2 = jwe.encrypt_json(obj, None, algorithms=jp.ALL_NAMES, sender_key=spriv)
        except Exception as e:
            f[f"C08:reseal-raises:{exc_key(e)}"] = f"decrypt_json -> amend protected header -> encrypt_json: {type(e).__name__}: {e}"
            return f
        try:
            r2 = jp.ref_decrypt(tok2, plan, strict=False, limit=None)
            wire = json.loads(rb.decode(tok2["protected"]))
            if r2["plaintext"] != pt:
                f["C08:reseal:plaintext-differs"] = "the re-sealed token decrypts to other data"
            elif wire.get("cty") != "amended":
                f["C08:reseal:amended-header-not-on-the-wire"] = f"protected header on the wire after amending cty: {wire!r}"
        except rjwe.Reject as e:
            f[f"C08:reseal:reference-rejects:{str(e)[:24]}"] = (f"a foreign token (spelling {case['spelling'][0]}) opened by joserfc, amended and encrypted again "
                                                               f"is refused by the reference: {e}")
    return f


def run_vectors(ctx):
    from joserfc import jwe
    from joserfc.jwk import JWKRegistry
    V = os.path.join(os.path.dirname(selftest.__file__), "vectors")

    def key(name):
        return JWKRegistry.import_key(json.load(open(os.path.join(V, "keys", name))))
    ex = json.load(open(os.path.join(V, "jwe_rfc7520.json")))
    for t in ex["tests"]:
        for form in ("compact", "flattened_json", "general_json"):
            if form not in t:
                continue
            try:
                k = key(t["key"])
                o = jwe.decrypt_compact(t[form], k, algorithms=jp.ALL_NAMES) if form == "compact" else jwe.decrypt_json(t[form], k, algorithms=jp.ALL_NAMES)
                assert o.plaintext.startswith(b"You can trust us")
            except Exception as e:
                ctx.finding(f"C08:vector-rejected:{t['name']}", f"{form}: {type(e).__name__}: {e}", {"vector": t["name"], "form": form})
            ctx.case(("vector", t["name"], form), cls="vectors", sample={"vector": t["name"], "form": form})
    ex = json.load(open(os.path.join(V, "jwe_compact_ecdh_1pu.json")))
    alice, bob = key("ec-p256-alice.json"), key("ec-p256-bob.json")
    for t in ex["tests"]:
        try:
            o = jwe.decrypt_compact(t["value"], bob, algorithms=jp.ALL_NAMES, sender_key=alice)
            assert o.plaintext == ex["payload"].encode()
        except Exception as e:
            ctx.finding(f"C08:vector-rejected:1pu:{t['name']}", f"{type(e).__name__}: {e}", {"vector": t["name"]})
        ctx.case(("vector", "1pu", t["name"]), cls="vectors")


def run_shard(ctx, spec):
    from gens.jose import setup_joserfc
    setup_joserfc()
    selftest.run()
    if spec["part"] == "vectors":
        run_vectors(ctx)
        return

    def body(case):
        plan = case["plan"]
        f = run_case(case)
        if "dont_care" in f:
            ctx.dontcare(f["dont_care"])
            return
        style = case["spelling"][0] if case["dir"] == "B" else "-"
        n = len(plan["recipients"])
        ctx.case((case["dir"], jp.plan_label(plan), style, case["in_protected"] if case["dir"] == "B" else None),
                 cls=[f"dir:{case['dir']}", f"ser:{plan['ser']}", f"enc:{plan['enc']}", f"zip:{plan['zip']}", f"recipients:{n if n < 3 else '3+'}"]
                 + ([f"spelling:{style}"] if case["dir"] == "B" else []) + [f"alg:{r['alg']}" for r in plan["recipients"]],
                 sample={"dir": case["dir"], "ser": plan["ser"], "enc": plan["enc"], "zip": plan["zip"], "algs": [r["alg"] for r in plan["recipients"]],
                         "spelling": style, "protected": plan["protected"], "aad": plan["aad_hex"], "plaintext_len": len(plan["plaintext_hex"]) // 2})
        for k, w in f.items():
            ctx.finding(k, w, case)
    if spec["part"] == "cells":
        for j, (d, alg, enc, z, ser) in enumerate(cells()):
            if j % spec["n"] != spec["i"] or ctx.expired():
                continue
            strat = st.fixed_dictionaries({"dir": st.just(d), "plan": jp.plans(sers=(ser,), algs=[alg], encs=[enc], force_zip=z, max_recipients=2),
                                           "form": st.sampled_from(KEYFORMS), "spelling": spelling, "seed": st.integers(0, 2**32),
                                           "in_protected": st.booleans(), "zip_level": st.integers(0, 9)})
            drive(ctx, f"cell-{d}-{alg}-{enc}-{z}-{ser}", strat, body, 4)
            ctx.count("cells-enumerated")
        return
    drive(ctx, "wire", case_strategy, body, 330 if ctx.tier == "quick" else 1500)


def replay(rec) -> dict:
    from gens.jose import setup_joserfc
    setup_joserfc()
    if "vector" in rec:
        return {}
    f = run_case(rec)
    f.pop("dont_care", None)
    return f
