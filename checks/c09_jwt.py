"""C09 - JWT encode/decode is faithful and yields only JSON-object claims."""
from __future__ import annotations
import calendar
import copy
import datetime
import json
import os
import time

from hypothesis import strategies as st

from harness.hyp import drive
from gens import jsonv, keys as gk, jweplan
from gens.jose import jkey, ALL_JWS, exc_key, KEYFORMS
from ref import jws as rjws, jwe as rjwe, b64 as rb, keys as rk, selftest

LEVEL = "exploration"
RULE = ("positive part: claims = generated JSON objects (str keys; unicode, nesting, ints up to 10^30, floats) optionally with exp/nbf/iat "
        "as datetime (naive, UTC, fixed offsets -12h..+14h, microseconds); header with/without typ, cty, kid; JWS transport (14 algs) "
        "and JWE transport (registry=JWERegistry; 17 algs x 8 encs); allow-list given as registry, as algorithms= or as both; key as key / key set (kid recorded) / callable / plain key for encoding and a single-key set for decoding; process runs "
        "with TZ=Asia/Tokyo so that local-time conversions differ from UTC. Oracle: decode(encode(h, c)).claims equals the JSON value of "
        "c with datetimes replaced by calendar.timegm(utctimetuple) (typed equality), header = {typ: JWT} + h (+kid, +epk/iv/tag/p2s/"
        "p2c), caller's header object unchanged; also with caller-supplied JSON encoder / decoder classes (a claim of a type only that encoder knows). negative part: validly signed (reference) or encrypted payloads that are not JSON or "
        "not a JSON object must raise InvalidPayloadError. non-trivial: claims with non-ASCII, nesting>=2, float, big int or datetime, "
        "or a non-object payload; distinct = digest of (claims shape, transport, alg, key mode).")
ASSUMPTIONS = ["naive datetimes are interpreted as UTC (library convention: calendar.timegm(dt.utctimetuple()))",
               "tampered transports are C01/C02's business (jwt.decode is one of their entry points)"]
BUDGET_S = {"quick": 85, "thorough": 1200}
FLOORS = {"quick": {"transport:jws": 1500, "transport:jwe": 700, "datetime:aware-offset": 200, "datetime:naive": 200, "negative": 800, "keymode:keyset": 300},
          "thorough": {"transport:jws": 15000}}

claim_key = st.one_of(st.sampled_from(["iss", "sub", "aud", "jti", "role", "é", "data", "n"]), st.text(max_size=6))
big = st.sampled_from([2**31, 2**53 + 1, 2**63, 2**64, 10**30, -10**30])
leaf = st.one_of(st.none(), st.booleans(), st.integers(-1000, 1000), big, st.floats(allow_nan=False, allow_infinity=False),
                 st.text(max_size=10), st.sampled_from(["é✓", "\U0001f600", "line\nbreak", '"quoted"', "\\"]))
value = st.recursive(leaf, lambda ch: st.one_of(st.lists(ch, max_size=3), st.dictionaries(st.text(max_size=4), ch, max_size=3)), max_leaves=8)
tzs = st.one_of(st.none(), st.just(0), st.sampled_from([-720, -330, -300, 60, 330, 540, 840]))
dts = st.builds(lambda secs, us, tz: {"secs": secs, "us": us, "tz": tz}, st.integers(0, 4 * 10**9), st.sampled_from([0, 0, 1, 500000, 999999]), tzs)


def mk_dt(d):
    base = datetime.datetime(1970, 1, 1) + datetime.timedelta(seconds=d["secs"], microseconds=d["us"])
    if d["tz"] is None:
        return base
    tz = datetime.timezone(datetime.timedelta(minutes=d["tz"]))
    return (base.replace(tzinfo=datetime.timezone.utc)).astimezone(tz)


@st.composite
def pos_cases(draw):
    claims = draw(st.dictionaries(claim_key, value, max_size=5))
    dt = {}
    for n in ("exp", "nbf", "iat"):
        r = draw(st.integers(0, 5))
        if r == 0:
            dt[n] = draw(dts)
        elif r == 1:
            claims[n] = draw(st.one_of(st.integers(0, 4 * 10**9), st.floats(0, 4e9)))
    transport = draw(st.sampled_from(["jws", "jws", "jwe"]))
    hdr = draw(st.fixed_dictionaries({}, optional={"typ": st.sampled_from(["JWT", "at+jwt", "JOSE", "jeton+jwt-é", "", "0"]), "cty": st.sampled_from(["json", "données", "データ"]),
                                                      "x5t": st.just("dGh1bWI")}))
    if transport == "jws":
        alg = draw(st.sampled_from(gk.JWS_ALGS))
        key = draw(gk.jws_key_for(alg))
        hdr = {"alg": alg, **hdr}
        sender = None
    else:
        alg = draw(st.sampled_from([a for a in jweplan.ALGS if a not in rjwe.ECDH_1PU]))
        enc = draw(st.sampled_from(jweplan.ENCS))
        key = draw(jweplan.key_for(alg, enc, draw(st.sampled_from(jweplan.EC_CURVES + jweplan.X_CURVES))))
        hdr = {"alg": alg, "enc": enc, **hdr}
        if alg in rjwe.PBES2:
            hdr["p2c"] = 16
    keymode = draw(st.sampled_from(["key", "key", "keyset", "keyset_kid", "callable", "decode-with-single-key-set", "callable-nested", "keyset_single", "callable-keyset"]))
    if keymode == "keyset_kid":
        hdr["kid"] = "the-key"
    return {"kind": "pos", "claims": claims, "dt": dt, "transport": transport, "header": hdr, "key": gk.key_to_record(key),
            "keymode": keymode, "form": draw(st.sampled_from(KEYFORMS)),
            # how the caller names what is allowed: a registry built for it, the algorithms= list, or (JWE: a registry selects the transport) both
            "allow": draw(st.sampled_from(["registry", "algorithms", "both"])),
            # the caller's own JSON encoder / decoder classes (a claim of a type only that encoder knows is added)
            "codec": draw(st.sampled_from([None, None, "encoder", "both"])),
            # JWS transport: the issuer's key object is declared for signing only, the consumer's (same material) for verifying only
            "role": draw(st.sampled_from([None, None, "ops", "ops+use"]))}


neg_payload = st.one_of(
    st.sampled_from([b"[1,2]", b'"str"', b"123", b"null", b"true", b"1.5", b"[]", b'[{"a":1}]', b"", b"{", b"not json", b"\xff\xfe", b'{"a":1}x', b"NaN", b" "]),
    st.binary(max_size=20), value.filter(lambda v: not isinstance(v, dict)).map(lambda v: json.dumps(v).encode()))


@st.composite
def neg_cases(draw):
    transport = draw(st.sampled_from(["jws", "jwe"]))
    return {"kind": "neg", "payload_hex": draw(neg_payload).hex(), "transport": transport,
            "alg": draw(st.sampled_from(["HS256", "ES256", "EdDSA"])) if transport == "jws" else draw(st.sampled_from(["dir", "A128KW"])),
            "minter": draw(st.sampled_from(["ref", "joserfc"]))}


def typed_eq(a, b) -> bool:
    if isinstance(a, bool) or isinstance(b, bool) or a is None or b is None:
        return type(a) is type(b) and a == b
    if isinstance(a, (int, float)) and isinstance(b, (int, float)):
        return type(a) is type(b) and a == b
    if type(a) is not type(b):
        return False
    if isinstance(a, list):
        return len(a) == len(b) and all(typed_eq(x, y) for x, y in zip(a, b))
    if isinstance(a, dict):
        return a.keys() == b.keys() and all(typed_eq(a[k], b[k]) for k in a)
    return a == b


def run_pos(case) -> dict:
    from joserfc import jwt, jwe
    from joserfc.jwk import KeySet
    f = {}
    claims = copy.deepcopy(case["claims"])
    expected = json.loads(json.dumps(case["claims"]))
    for n, d in case["dt"].items():
        dt = mk_dt(d)
        claims[n] = dt
        expected[n] = calendar.timegm(dt.utctimetuple())
    refkey = gk.key_from_record(case["key"])
    kidp = {"kid": "the-key"} if case["keymode"] in ("keyset", "keyset_kid", "keyset_single", "callable-keyset") else None
    role = case.get("role") if case["transport"] == "jws" else None
    if role:
        from gens import jwsplan as _jp
        priv = jkey(refkey, case["form"], True, {**(kidp or {}), **_jp.role_params(role, "sign")})
        pub = jkey(refkey if refkey["kty"] == "oct" else rk.public_of(refkey), case["form"], refkey["kty"] == "oct", {**(kidp or {}), **_jp.role_params(role, "verify")})
    else:
        priv = jkey(refkey, case["form"], True, kidp)
        pub = priv if refkey["kty"] == "oct" else jkey(rk.public_of(refkey), case["form"], False, kidp)
    decoy = jkey({"kty": "oct", "k": b"0123456789abcdef" * 2}, "dict", True, {"kid": "decoy"})
    if refkey["kty"] == "oct":
        decoy = jkey(gk.okp_from_seed("Ed25519", bytes(32)), "dict", True, {"kid": "decoy"})
    jwe_t = case["transport"] == "jwe"
    enc_key, dec_key = (pub, priv) if jwe_t else (priv, pub)

    def arg(k, decoding=False):
        if case["keymode"] == "decode-with-single-key-set":
            # encoded with the plain key (no kid anywhere); the consumer holds a key set with exactly that key
            return KeySet([k]) if decoding else k
        if case["keymode"] == "key":
            return k
        if case["keymode"] == "callable":
            return lambda obj: k
        if case["keymode"] == "callable-nested":
            # the key callable itself decodes another JWT (say, a key-directory assertion under another key) before it answers
            def resolve(obj):
                if decoding:
                    other = jkey({"kty": "oct", "k": b"directory-key-0123456789abcdef!!"}, "dict", True)
                    t2 = jwt.encode({"alg": "HS256"}, {"dir": ["k1", "k2"], "n": 7}, other)
                    if jwt.decode(t2, other).claims != {"dir": ["k1", "k2"], "n": 7}:
                        raise AssertionError("nested decode wrong")
                return k
            return resolve
        if case["keymode"] == "callable-keyset":
            ks = KeySet([k, decoy])  # the callable hands over the whole set: choosing the key (and recording its kid) is the library's job
            return lambda obj: ks
        if case["keymode"] == "keyset_single":
            return KeySet([k])       # a set of one key is still a key set: the kid of the key it picks is recorded
        return KeySet([k, decoy])
    allow = case.get("allow", "registry" if jwe_t else "algorithms")
    if jwe_t:
        # a JWERegistry instance selects the JWE transport; the names may come from it or from algorithms=
        kw = ({"registry": jwe.JWERegistry(algorithms=jweplan.ALL_NAMES)} if allow == "registry" else
              {"registry": jwe.JWERegistry(), "algorithms": [case["header"]["alg"], case["header"]["enc"]] + (["DEF"] if "zip" in case["header"] else [])})
    else:
        from joserfc import jws as _jws
        kw = ({"registry": _jws.JWSRegistry(algorithms=ALL_JWS)} if allow == "registry" else {"algorithms": ALL_JWS} if allow == "algorithms" else
              {"algorithms": [case["header"]["alg"]]})
    header = copy.deepcopy(case["header"])
    before = copy.deepcopy(header)
    tag = case["transport"]
    ekw, dkw = {}, {}
    if case.get("codec"):
        import uuid

        class UUIDEncoder(json.JSONEncoder):
            def default(self, o):
                if isinstance(o, uuid.UUID):
                    return str(o)
                return super().default(o)

        class PlainDecoder(json.JSONDecoder):
            pass
        claims["x-id"] = uuid.UUID(int=len(json.dumps(expected)) * 0x9e3779b97f4a7c15)
        expected["x-id"] = str(claims["x-id"])
        ekw = {"encoder_cls": UUIDEncoder}
        dkw = {"decoder_cls": PlainDecoder} if case["codec"] == "both" else {}
        tag += ":codec"
    try:
        token = jwt.encode(header, claims, arg(enc_key), **kw, **ekw)
    except Exception as e:
        return {f"C09:encode-raises:{tag}:{exc_key(e)}": f"{type(e).__name__}: {e} (header {before!r})"}
    if header != before:
        f[f"C09:encode-alters-callers-header:{tag}"] = f"header given {before!r} is {header!r} after jwt.encode (key mode {case['keymode']})"
    try:
        tok = jwt.decode(token, arg(dec_key, True), **kw, **dkw)
    except Exception as e:
        f[f"C09:decode-raises:{tag}:{exc_key(e)}"] = f"{type(e).__name__}: {e}"
        return f
    if not typed_eq(tok.claims, expected):
        kind = "datetime" if any(not typed_eq(tok.claims.get(n), expected.get(n)) for n in case["dt"]) else "claims"
        f[f"C09:{kind}-differ:{tag}"] = f"decoded claims {tok.claims!r} != encoded {expected!r}"
    want_h = {"typ": "JWT", **before}
    got_h = dict(tok.header)
    extra = set(got_h) - set(want_h)
    allowed_extra = {"kid"} if case["keymode"] in ("keyset", "keyset_single", "callable-keyset") else set()
    if jwe_t:
        allowed_extra |= {"epk", "iv", "tag", "p2s", "p2c"}
    if any(got_h.get(k) != v for k, v in want_h.items()) or not extra <= allowed_extra:
        f[f"C09:header-differs:{tag}"] = f"decoded header {got_h!r}; expected {want_h!r} (+{sorted(allowed_extra)})"
    if case["keymode"] in ("keyset", "keyset_single", "callable-keyset") and got_h.get("kid") != "the-key":
        f[f"C09:kid-of-chosen-key-missing:{tag}"] = f"decoded header {got_h!r} lacks kid 'the-key'"
    # nothing is decoded unless the integrity check of the transport passes: the token with its signature / tag emptied or halved,
    # or with the first character of the payload, ciphertext or IV segment changed, is refused
    segs = token.split(".")

    def swap(c):
        return "B" if c != "B" else "C"
    variants = {"last-empty": segs[:-1] + [""], "last-halved": segs[:-1] + [segs[-1][: len(segs[-1]) // 2]]}
    body_i = 1 if len(segs) == 3 else 3
    if segs[body_i]:
        variants["body-changed"] = segs[:body_i] + [swap(segs[body_i][0]) + segs[body_i][1:]] + segs[body_i + 1:]
        variants["body-changed+last-empty"] = variants["body-changed"][:-1] + [""]
    if len(segs) == 5 and segs[2]:
        variants["iv-changed+last-empty"] = segs[:2] + [swap(segs[2][0]) + segs[2][1:]] + segs[3:4] + [""]
    for name, parts in variants.items():
        if not segs[-1] and name.startswith("last"):
            continue
        try:
            t2 = jwt.decode(".".join(parts), arg(dec_key, True), **kw)
        except Exception:
            continue
        f[f"C09:tampered-token-decoded:{tag}:{name}"] = f"jwt.decode returned {t2.claims!r} for a token whose integrity cannot have been checked ({name}; {before.get('alg')}, {before.get('enc')})"
    return f


_NEG_KEYS = {
    "HS256": {"kty": "oct", "k": bytes(range(32))}, "dir": {"kty": "oct", "k": bytes(range(16))}, "A128KW": {"kty": "oct", "k": bytes(range(16))},
}


def run_neg(case) -> dict:
    from joserfc import jwt, jws, jwe
    from joserfc.errors import InvalidPayloadError
    payload = bytes.fromhex(case["payload_hex"])
    alg = case["alg"]
    refkey = _NEG_KEYS.get(alg) or (gk.ec_from_d("P-256", 99) if alg == "ES256" else gk.okp_from_seed("Ed25519", bytes(range(32))))
    key = jkey(refkey, "dict", True)
    if case["transport"] == "jws":
        if case["minter"] == "ref":
            token = rjws.make_compact(json.dumps({"alg": alg, "typ": "JWT"}).encode(), payload, alg, refkey)
        else:
            token = jws.serialize_compact({"alg": alg, "typ": "JWT"}, payload, key, algorithms=ALL_JWS)
        kw = {"algorithms": ALL_JWS}
    else:
        token = jwe.encrypt_compact({"alg": alg, "enc": "A128GCM"}, payload, key, algorithms=jweplan.ALL_NAMES)
        kw = {"registry": jwe.JWERegistry(algorithms=jweplan.ALL_NAMES)}
    try:
        is_obj = isinstance(json.loads(payload), dict)
    except (ValueError, RecursionError):
        is_obj = False
    if is_obj:
        return {"dont_care": "payload is a JSON object"}
    try:
        tok = jwt.decode(token, key, **kw)
    except InvalidPayloadError:
        return {}
    except Exception as e:
        return {f"C09:non-object-payload-wrong-error:{case['transport']}:{type(e).__name__}": f"payload {payload[:40]!r}: {type(e).__name__}: {e}"}
    return {f"C09:non-object-payload-returned-as-claims:{case['transport']}": f"jwt.decode returned claims {tok.claims!r} for the signed payload {payload[:40]!r}"}


def run_big(case) -> dict:
    """Claims whose JSON text is as large as the compressed JWE transport admits (256000 octets of plaintext) and a little less."""
    from joserfc import jwt, jwe
    from joserfc.jwk import OctKey
    key = OctKey.import_key({"kty": "oct", "k": rb.encode(bytes(range(16)))})
    reg = jwe.JWERegistry(algorithms=["dir", "A128GCM", "DEF"])
    claims = {"pad": case["fill"] * (case["n"] // len(case["fill"]))}
    try:
        token = jwt.encode({"alg": "dir", "enc": "A128GCM", "zip": "DEF"}, claims, key, registry=reg)
    except Exception as e:
        return {f"C09:encode-raises:jwe:big:{exc_key(e)}": f"{type(e).__name__}: {e} (claims text of about {case['n'] + 10} octets)"}
    try:
        pt = rjwe.decrypt_compact(token, lambda h: {"kty": "oct", "k": bytes(range(16))}, limit=None)["plaintext"]
    except rjwe.Reject as e:
        return {"C09:reference-rejects-big-token": str(e)}
    if len(pt) > 256000:
        return {"dont_care": "claims text beyond the limit of the compressed transport"}
    try:
        tok = jwt.decode(token, key, registry=reg)
    except Exception as e:
        return {f"C09:decode-raises:jwe:big:{exc_key(e)}": f"claims text of {len(pt)} octets (limit 256000): {type(e).__name__}: {e}"}
    if tok.claims != claims:
        return {"C09:claims-differ:jwe:big": f"claims text of {len(pt)} octets comes back different"}
    return {}


def run_case(case):
    if case["kind"] == "big":
        return run_big(case)
    return run_pos(case) if case["kind"] == "pos" else run_neg(case)


def shards(tier):
    return [(f"p{i:02d}", {"part": "pos", "i": i}) for i in range(12)] + [(f"n{i}", {"part": "neg"}) for i in range(4)]


def _shape(v, depth=0):
    if isinstance(v, dict):
        return ("o", tuple(sorted((k, _shape(x, depth + 1)) for k, x in v.items())))
    if isinstance(v, list):
        return ("l", tuple(_shape(x, depth + 1) for x in v))
    if isinstance(v, str):
        return "s" if v.isascii() else "S"
    if isinstance(v, int) and not isinstance(v, bool):
        return "I" if abs(v) > 2**53 else "i"
    return type(v).__name__


def _depth(v):
    if isinstance(v, dict):
        return 1 + max([_depth(x) for x in v.values()] or [0])
    if isinstance(v, list):
        return 1 + max([_depth(x) for x in v] or [0])
    return 0


def run_shard(ctx, spec):
    from gens.jose import setup_joserfc
    setup_joserfc()
    selftest.run()
    os.environ["TZ"] = "Asia/Tokyo"
    time.tzset()

    def body(case):
        f = run_case(case)
        if "dont_care" in f:
            ctx.dontcare(f["dont_care"])
            return
        if case["kind"] == "pos":
            shape = _shape(case["claims"])
            s = repr(shape)
            nontrivial = bool(case["dt"]) or "S" in s or "I" in s or "float" in s or _depth(case["claims"]) >= 3
            cls = [f"transport:{case['transport']}", f"keymode:{case['keymode']}", f"alg:{case['header']['alg']}"]
            for n, d in case["dt"].items():
                cls.append("datetime:naive" if d["tz"] is None else "datetime:utc" if d["tz"] == 0 else "datetime:aware-offset")
            ctx.case((shape, tuple(sorted((n, d["tz"], d["us"] != 0) for n, d in case["dt"].items())), case["transport"], case["header"]["alg"], case["keymode"]),
                     nontrivial=nontrivial, cls=cls,
                     sample={"claims": case["claims"], "datetimes": case["dt"], "header": case["header"], "keymode": case["keymode"]})
        else:
            ctx.case(("neg", case["payload_hex"], case["transport"], case["alg"], case["minter"]), cls=["negative", f"negative:{case['transport']}"],
                     sample={"payload": bytes.fromhex(case["payload_hex"]).decode("latin-1"), "transport": case["transport"], "alg": case["alg"]})
        for k, w in f.items():
            ctx.finding(k, w, case)
    if spec["part"] == "pos":
        if spec.get("i") == 0:
            for n in (255990, 255989, 255988, 255900, 250000):
                for fill in ("x", "ab"):
                    case = {"kind": "big", "n": n, "fill": fill}
                    f = run_big(case)
                    ctx.case(("big", n, fill), cls=["transport:jwe", "big-claims"])
                    if "dont_care" in f:
                        ctx.dontcare(f["dont_care"])
                        continue
                    for k, w in f.items():
                        ctx.finding(k, w, case)
        drive(ctx, "pos", pos_cases(), body, 900 if ctx.tier == "quick" else 5000)
    else:
        drive(ctx, "neg", neg_cases(), body, 1200 if ctx.tier == "quick" else 6000)


def replay(rec) -> dict:
    from gens.jose import setup_joserfc
    setup_joserfc()
    os.environ["TZ"] = "Asia/Tokyo"
    time.tzset()
    f = run_case(rec)
    f.pop("dont_care", None)
    return f
