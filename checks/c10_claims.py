"""C10 - claims validation accepts exactly the claim sets that satisfy the request.

Oracle: a validator written from the statement, returning the set of violated rule classes
{missing, invalid, expired, not_yet_valid} or DONT_CARE for the regions the statement leaves open.
"""
from __future__ import annotations
import copy
import math
import types

from hypothesis import strategies as st

from harness.hyp import drive
from gens import jsonv

LEVEL = "exploration"
RULE = ("claims sets over {iss, sub, aud, exp, nbf, iat, jti, role, x, private names that are words of the implementation (time, value, "
        "now, leeway, ...) and every <x> with a validate_<x> / check_<x> method on the class under test} with values of every JSON type (aud also lists; strings drawn "
        "from a pool with prefix/superstring relations; null values), request options per claim = every subset of {essential, "
        "allow_blank, value, values}, now in ints, leeway 0..3600, time claims placed by construction at now-leeway-1, now-leeway, "
        "now-leeway+1, now+leeway-1, now+leeway, now+leeway+1 and far away, as int and float; implicit now through a patched clock. "
        "The complete boundary grid (7 offsets x 3 claims x int/float x leeway {0,1,60}) is enumerated. non-trivial: at least one "
        "option present and at least one claim exercising an option or within +-1 of a time boundary; distinct = digest of (option "
        "shapes, value types, boundary offsets, verdict).")
ASSUMPTIONS = ["DONT_CARE: exp == now-leeway, value and values both given with different verdicts under the both/either readings, "
               "aud with both value and values or a falsy value or empty values list, empty option dict, requested and actual values that are "
               "equal in Python but of different JSON type (1 == True == 1.0)"]
BUDGET_S = {"quick": 80, "thorough": 900}
FLOORS = {"quick": {"verdict:accept": 20000, "verdict:reject:missing": 3000, "verdict:reject:invalid": 10000, "verdict:reject:expired": 3000,
                    "verdict:reject:not_yet_valid": 3000, "boundary": 10000, "aud:superstring": 300, "registry-reused": 10000},
          "thorough": {"verdict:accept": 200000}}
EXHAUSTIVE = {"quick": False, "thorough": False}

NAMES = ["iss", "sub", "aud", "exp", "nbf", "iat", "jti", "role", "x",
         # private claim names that happen to be words the implementation uses itself (validate_<name> dispatch, attributes, options)
         "time", "value", "values", "essential", "now", "leeway", "claims", "options", "aud2", "numeric_time", "registry"]
POOL = ["", "a", "ab", "abc", "https://api.example.com", "https://api.example.com.evil.org", "svc-a", "svc-a2", "é", "admin"]
BLANKS = [" ", "\t", " \n "]      # made of blanks, yet not the empty string
strv = st.sampled_from(POOL)
scalar = st.one_of(st.none(), st.booleans(), st.integers(-3, 3), st.sampled_from([0.5, 1.0, 2.5]), strv, strv, st.sampled_from(BLANKS))
anyv = st.one_of(scalar, scalar, st.lists(scalar, max_size=3), st.dictionaries(strv, scalar, max_size=2))
reqv = st.one_of(strv, strv, st.integers(-3, 3), st.booleans(), st.sampled_from([0.5, 1.0]))
OFFSETS = ["now-leeway-1", "now-leeway", "now-leeway+1", "now+leeway-1", "now+leeway", "now+leeway+1", "past", "future",
           # JSON integers beyond what a double holds ("never expires" written with many digits), and very large doubles
           "far-future", "far-past", "huge-double"]


def time_value(off: str, now: int, leeway: int, as_float: bool, frac: float):
    base = {"now-leeway-1": now - leeway - 1, "now-leeway": now - leeway, "now-leeway+1": now - leeway + 1,
            "now+leeway-1": now + leeway - 1, "now+leeway": now + leeway, "now+leeway+1": now + leeway + 1,
            "past": now - 10**6, "future": now + 10**6, "far-future": 10**320 + now, "far-past": -(10**320), "huge-double": 1e300}[off]
    if off in ("far-future", "far-past"):
        return base
    return float(base) + frac if as_float else base


_option_any = st.fixed_dictionaries({}, optional={
    "essential": st.booleans(), "allow_blank": st.sampled_from([True, False, None]), "value": reqv, "values": st.lists(reqv, max_size=3)})
option = st.one_of(
    _option_any.filter(bool), _option_any.filter(bool), _option_any.filter(bool), _option_any.filter(bool), _option_any.filter(bool), _option_any,
    st.fixed_dictionaries({"essential": st.just(True)}), st.fixed_dictionaries({"value": reqv}), st.fixed_dictionaries({"values": st.lists(reqv, min_size=1, max_size=3)}))
aud_option = st.one_of(st.fixed_dictionaries({"value": strv.filter(bool)}, optional={"essential": st.booleans()}),
                       st.fixed_dictionaries({"values": st.lists(strv, min_size=1, max_size=3)}, optional={"essential": st.booleans()}))


_ALL_NAMES = []


def all_names():
    """NAMES plus every <x> for which the registry class of the tree under test has a method validate_<x> / check_<x>: a private claim
    of that name must be treated like any other claim."""
    if not _ALL_NAMES:
        from joserfc import jwt
        extra = sorted({a.split("_", 1)[1] for a in dir(jwt.JWTClaimsRegistry) if a.startswith(("validate_", "check_")) and "_" in a})
        _ALL_NAMES.extend(NAMES + [e for e in extra if e not in NAMES])
    return _ALL_NAMES


@st.composite
def cases(draw, prelude: bool = False):
    now = draw(st.one_of(st.integers(0, 2 * 10**9), st.just(1700000000)))
    leeway = draw(st.sampled_from([0, 0, 1, 60, 3600, 17]))
    names = draw(st.lists(st.sampled_from(all_names()), unique=True, min_size=0, max_size=6))
    claims = {}
    tv = {}
    for n in names:
        if n in ("exp", "nbf", "iat") and draw(st.integers(0, 5)) != 0:
            off = draw(st.sampled_from(OFFSETS))
            as_float = draw(st.booleans())
            frac = draw(st.sampled_from([0.0, 0.0, 0.5, -0.5])) if as_float else 0.0
            claims[n] = time_value(off, now, leeway, as_float, frac)
            tv[n] = [off, as_float, frac]
        elif n in ("exp", "nbf", "iat"):
            # not a JSON number: booleans, the literals json.loads also accepts, and the other types
            claims[n] = draw(st.one_of(st.booleans(), st.sampled_from(["$NaN", "$Infinity", "$-Infinity"]), anyv))
        elif n == "aud":
            claims[n] = draw(st.one_of(strv, strv, st.lists(strv, max_size=3), anyv))
        else:
            claims[n] = draw(anyv)
    onames = draw(st.lists(st.sampled_from([n for n in all_names() if n not in ("now", "leeway")]), unique=True, min_size=0, max_size=5))
    options = {n: draw(option) for n in onames}
    if "aud" in claims and draw(st.booleans()):
        options["aud"] = draw(aud_option)
        if draw(st.booleans()):
            claims["aud"] = draw(st.one_of(strv, st.lists(strv, max_size=3)))
    # a requested value is often taken from the claims so that matches occur
    for n in onames:
        if n in claims and "value" in options[n] and draw(st.booleans()) and isinstance(claims[n], (str, int, float, bool)):
            options[n]["value"] = claims[n]
        if n == "aud" and isinstance(claims.get("aud"), list) and claims["aud"] and "values" in options[n] and draw(st.booleans()):
            options[n]["values"] = options[n]["values"] + [draw(st.sampled_from(claims["aud"]))]
    implicit_now = draw(st.integers(0, 7)) == 0
    # further claims sets validated afterwards with the SAME registry object (a registry is naturally reused for many tokens)
    more = []
    for _ in range(draw(st.sampled_from([0, 0, 1, 2, 3]))):
        c2 = dict(claims)
        for n in draw(st.lists(st.sampled_from(NAMES), unique=True, max_size=4)):
            if n in c2 and draw(st.booleans()):
                del c2[n]
            else:
                c2[n] = draw(st.one_of(strv, st.none(), anyv)) if n not in ("exp", "nbf", "iat") else time_value(draw(st.sampled_from(OFFSETS)), now, leeway, False, 0.0)
        more.append(c2)
    return {"claims": claims, "options": options, "now": now, "leeway": leeway, "implicit_now": implicit_now, "tv": tv, "more": more, "prelude": prelude}


# ------------------------------------------------------------------ the oracle
class DontCare(Exception):
    pass


def _jtype(v):
    return jsonv.json_type(v) if not isinstance(v, list) else "list"


def _eq(a, b) -> bool:
    """JSON equality; raises DontCare when Python equality and JSON-typed equality disagree."""
    py = a == b
    strict = _deep_typed_eq(a, b)
    if py != strict:
        raise DontCare("python-equal values of different JSON type")
    return strict


def _deep_typed_eq(a, b) -> bool:
    if isinstance(a, bool) or isinstance(b, bool):
        return type(a) is type(b) and a == b
    if isinstance(a, (int, float)) and isinstance(b, (int, float)):
        if type(a) is not type(b):
            return False if a != b else None  # 1 vs 1.0: undecided -> mismatch with python equality triggers DontCare
        return a == b
    if type(a) is not type(b):
        return False
    if isinstance(a, list):
        return len(a) == len(b) and all(_deep_typed_eq(x, y) for x, y in zip(a, b))
    if isinstance(a, dict):
        return a.keys() == b.keys() and all(_deep_typed_eq(a[k], b[k]) for k in a)
    return a == b


def _check_value(name, value, opt, out):
    """generic request rules for a present claim other than aud"""
    if value == "" and isinstance(value, str) and not opt.get("allow_blank"):
        out.add("invalid")
    has_v = "value" in opt and opt["value"] is not None
    has_vs = "values" in opt and opt["values"] is not None
    ok_v = _eq(value, opt["value"]) if has_v else True
    ok_vs = any(_eq(value, x) for x in opt["values"]) if has_vs else True
    if has_v and has_vs and ok_v != ok_vs:
        raise DontCare("value and values both requested with different verdicts")
    if not (ok_v and ok_vs):
        out.add("invalid")


def oracle(claims, options, now, leeway) -> set:
    out = set()
    for n, opt in options.items():
        if opt == {}:
            if n in claims or True:
                raise DontCare("empty option dict")
    for n, opt in options.items():
        if opt.get("essential") and claims.get(n) is None:
            out.add("missing")
    for n, v in claims.items():
        opt = options.get(n)
        if n == "aud":
            if not opt:
                continue
            if "value" in opt and "values" in opt and opt["values"] is not None and opt["value"] is not None:
                raise DontCare("aud with value and values")
            req = opt.get("values")
            if req is None:
                if "value" not in opt or opt["value"] is None:
                    continue
                if not opt["value"]:
                    raise DontCare("falsy value for aud")
                req = [opt["value"]]
            if not req:
                raise DontCare("empty values list for aud")
            auds = v if isinstance(v, list) else [v]
            if not any(_eq(r, a) for r in req for a in auds):
                out.add("invalid")
            continue
        if n in ("exp", "nbf", "iat"):
            if isinstance(v, bool) or not isinstance(v, (int, float)) or (isinstance(v, float) and not math.isfinite(v)):
                # true / false and the non-JSON literals NaN / Infinity are not numbers
                out.add("invalid")
                continue
            if n == "exp":
                if v == now - leeway:
                    raise DontCare("exp == now - leeway")
                if v < now - leeway:
                    out.add("expired")
            elif v > now + leeway:
                out.add("not_yet_valid")
            if opt:
                _check_value(n, v, opt, out)
            continue
        if opt:
            _check_value(n, v, opt, out)
    return out


_SPECIAL = {"$NaN": float("nan"), "$Infinity": float("inf"), "$-Infinity": float("-inf")}


def _mat(claims):
    """Markers for the non-JSON float literals (kept as strings in records so that evidence and replay files stay valid JSON)."""
    return {k: (_SPECIAL[v] if isinstance(v, str) and v in _SPECIAL else v) for k, v in claims.items()}


def run_case(case) -> dict:
    from joserfc import jwt
    from joserfc.errors import MissingClaimError, InvalidClaimError, ExpiredTokenError, InvalidTokenError, JoseError
    import joserfc.rfc7519.registry as regmod
    classes = {MissingClaimError: "missing", InvalidClaimError: "invalid", ExpiredTokenError: "expired", InvalidTokenError: "not_yet_valid"}
    options, now, leeway = case["options"], case["now"], case["leeway"]
    if case.get("prelude"):
        # another part of the application validated claims with the generic registry (no time rules) before
        from joserfc.rfc7519.registry import ClaimsRegistry
        try:
            ClaimsRegistry(sub={"essential": True}).validate({"sub": "someone", "exp": 1})
        except Exception:
            pass
    sequence = [_mat(c) for c in [case["claims"]] + list(case.get("more", []))]
    opts = copy.deepcopy(options)
    real_time = regmod.time
    try:
        if case["implicit_now"]:
            regmod.time = types.SimpleNamespace(time=lambda: now + 0.75)
            reg = jwt.JWTClaimsRegistry(leeway=leeway, **opts)
        else:
            reg = jwt.JWTClaimsRegistry(now=now, leeway=leeway, **opts)
    finally:
        regmod.time = real_time
    f = {}
    first_verdict = None
    for idx, claims in enumerate(sequence):
        try:
            want = oracle(claims, options, now, leeway)
        except DontCare as e:
            if idx == 0:
                return {"dont_care": str(e)}
            continue
        before = copy.deepcopy(claims)
        work = copy.deepcopy(claims)
        suffix = "" if idx == 0 else ":reused-registry"
        try:
            r = reg.validate(work)
            raised = None
        except tuple(classes) as e:
            raised = classes[type(e)]
        except Exception as e:
            return {f"C10:unexpected-exception:{type(e).__name__}": f"validate raised {type(e).__name__}: {e} for claims {claims!r} options {options!r}"}
        if repr(work) != repr(before):
            f["C10:claims-modified"] = f"claims changed from {before!r} to {work!r}"
        hist = f" (validation #{idx + 1} with the same registry object; earlier claims sets: {sequence[:idx]!r})" if idx else ""
        if not want:
            if raised is not None:
                f[f"C10:rejects-satisfying:{raised}{suffix}"] = (f"claims {claims!r} satisfy request {options!r} at now={now} leeway={leeway} "
                                                                  f"but validate raised the {raised} error{hist}")
            elif r is not None:
                f["C10:validate-returns-value"] = repr(r)
        else:
            if raised is None:
                f["C10:accepts-violating:" + "+".join(sorted(want)) + suffix] = (f"claims {claims!r} violate request {options!r} at now={now} leeway={leeway} "
                                                                                  f"({sorted(want)}) but validate accepted them{hist}")
            elif raised not in want:
                f[f"C10:wrong-error-class:{raised}-for-" + "+".join(sorted(want))] = f"claims {claims!r} options {options!r}: raised {raised}, violated {sorted(want)}"
        if idx == 0:
            first_verdict = "accept" if not want else "reject:" + "+".join(sorted(want))
    f["_verdict"] = first_verdict
    f["_reused"] = len(sequence) - 1
    return f


def shards(tier):
    return [("grid", {"part": "grid"})] + [(f"g{i:02d}", {"part": "gen"}) for i in range(15)]


def _account(ctx, case, f):
    if "dont_care" in f:
        ctx.dontcare(f["dont_care"])
        return
    verdict = f.pop("_verdict", "?")
    reused = f.pop("_reused", 0)
    if reused:
        ctx.count("registry-reused", reused)
    claims, options = case["claims"], case["options"]
    exercised = [n for n in options if n in claims] + [n for n in case.get("tv", {})]
    boundary = [n for n, t in case.get("tv", {}).items() if t[0] not in ("past", "future")]
    sup = isinstance(claims.get("aud"), str) and any(isinstance(r, str) and r and r != claims["aud"] and r in claims["aud"]
                                                    for r in (options.get("aud", {}).get("values") or []) + [options.get("aud", {}).get("value")])
    shape = tuple(sorted((n, tuple(sorted(o))) for n, o in options.items()))
    types_ = tuple(sorted((n, jsonv.json_type(v)) for n, v in claims.items()))
    cls = [f"verdict:{v}" for v in ([verdict] if verdict == "accept" else ["reject:" + x for x in verdict[7:].split("+")])]
    if boundary:
        cls.append("boundary")
    if sup:
        cls.append("aud:superstring")
    if case["implicit_now"]:
        cls.append("implicit-now")
    if any(v is None for v in claims.values()):
        cls.append("null-claim")
    ctx.case((shape, types_, tuple(sorted((n, t[0], t[1]) for n, t in case.get("tv", {}).items())), verdict, case["leeway"]),
             nontrivial=bool(options) and bool(exercised), cls=cls,
             sample={"claims": claims, "options": options, "now": case["now"], "leeway": case["leeway"], "verdict": verdict})
    for k, w in f.items():
        ctx.finding(k, w, case)


def run_shard(ctx, spec):
    if spec["part"] == "grid":
        now = 1700000000
        for leeway in (0, 1, 60):
            for name in ("exp", "nbf", "iat"):
                for off in OFFSETS:
                    for as_float in (False, True):
                        for frac in ((0.0,) if not as_float else (0.0, 0.5, -0.5)):
                            for opt in ({}, {name: {"essential": True}}):
                                for implicit in (False, True):
                                    case = {"claims": {name: time_value(off, now, leeway, as_float, frac), "sub": "a"}, "options": opt, "now": now,
                                            "leeway": leeway, "implicit_now": implicit, "tv": {name: [off, as_float, frac]}}
                                    _account(ctx, case, run_case(case))
        return

    def body_first(case):
        # forked before this process has validated anything: the generic ClaimsRegistry is the first registry class the child uses
        from harness.fork import in_child
        _account(ctx, case, in_child(lambda: run_case(case)))
    drive(ctx, "prelude-first", cases(prelude=True), body_first, 120 if ctx.tier == "quick" else 1500)

    def body(case):
        _account(ctx, case, run_case(case))
    drive(ctx, "claims", cases(), body, 4200 if ctx.tier == "quick" else 60000)


def replay(rec) -> dict:
    f = run_case(rec)
    f.pop("_verdict", None)
    f.pop("_reused", None)
    f.pop("dont_care", None)
    return f
