"""C11 - JWK import/export round-trips key material across JWK, PEM and DER; malformed JWKs are refused."""
from __future__ import annotations
import copy
import json
import warnings

from hypothesis import strategies as st

from harness.hyp import drive
from gens import keys as gk, pem as gpem, jsonv
from gens.jose import jkey, ALL_JWS, exc_key
from ref import keys as rk, b64 as rb, jws as rjws, jwe as rjwe
from ref.ec import CURVES
from ref.okp import OKP_SIZES

LEVEL = "exploration"
RULE = ("round-trip part: keys of every type (oct 0-96 octets, RSA 1024-4096 from a committed pool, EC P-256/P-384/P-521/secp256k1 and OKP "
        "Ed25519/Ed448/X25519/X448 built from generated scalars/seeds with the special short-coordinate / leading-zero scalars weighted in, "
        "plus keys from generate_key) with generated extra parameters (kid, use, key_ops, alg, x5t); entered as conformant JWK, PEM, DER "
        "(optionally encrypted) or generated; exported as JWK (private None/True/False), PEM, DER (with/without password), KeySet.as_dict; "
        "re-imported through the typed class and JWKRegistry. Oracle: equal public/private numbers (through the strict reference parser, "
        "which enforces RFC 7518/8037 member formats), given members returned unchanged, signatures/ECDH interoperate between original "
        "and re-imported key. malformed part: one mutation of a valid JWK (delete a required member; retype any member to each other JSON "
        "type; use/key_ops contradiction; undecodable base64url; length = 1 mod 4; any proper subset of the private RSA members other than d alone; x/y/d replaced by another value of "
        "the right length; a number given as the empty string; oth present) must be refused. Raw oct secrets may begin / end with blanks or line breaks (octets like any other). non-trivial: keys with a short coordinate / leading zero, password-protected "
        "exports, each mutation kind; distinct = (kty/crv, key class, entry form, export form, params shape) or (mutation, member, kty).")
ASSUMPTIONS = ["benign acceptances outside the statement are DONT_CARE: empty kid/alg strings, key_ops [], a kty label the typed importer overrides, "
               "EC/OKP d replaced by another valid scalar TOGETHER with matching x (that is simply another key)",
               "RSA consistency of d with p,q is checked by the backend only partially: replacing d by another value of the same length is DONT_CARE unless accepted AND usable"]
BUDGET_S = {"quick": 85, "thorough": 1200}
FLOORS = {"quick": {"part:roundtrip": 2500, "part:malformed": 4000, "key:short": 300, "export:pem-encrypted": 150, "mut:retype": 1500, "mut:delete": 300,
                    "mut:bad-base64": 300, "mut:coordinate": 300, "mut:partial-crt": 100, "mut:crt-inconsistent": 40}, "thorough": {"part:roundtrip": 25000}}

MAX_RSA = [3072]   # 4096-bit keys only in the thorough tier (export with a password is slow)
ALL_TYPES = ["oct", "RSA", "P-256", "P-384", "P-521", "secp256k1", "Ed25519", "Ed448", "X25519", "X448"]


WS = [b" ", b"\n", b"\r\n", b"\t", b"\x0b", b"\x0c", b""]
# secrets whose first / last octets are blanks or line breaks: they are octets of the key like any other
oct_bordered = st.tuples(st.sampled_from(WS), st.binary(min_size=1, max_size=40), st.sampled_from(WS)).map(lambda t: {"kty": "oct", "k": t[0] + t[1] + t[2]})


def any_key():
    return st.sampled_from(ALL_TYPES).flatmap(
        lambda t: st.one_of(gk.oct_key(0, 96), oct_bordered) if t == "oct" else gk.rsa_key(1024, MAX_RSA[0]) if t == "RSA" else gk.ec_key(t) if t in CURVES else gk.okp_key(t))


def params_for(kty):
    sig_ok = kty in ("oct", "RSA", "EC", "OKP")
    return st.fixed_dictionaries({}, optional={
        "kid": st.sampled_from(["k1", "é-kid", "a/b+c=", ""]), "alg": st.sampled_from(["HS256", "RS256", "ES256", "A128KW"]),
        "x5t": st.just("dGh1bWI"), "x5c": st.just(["MIIB"]),
        "use_ops": st.sampled_from([("sig", None), ("enc", None), (None, ["sign", "verify"]), (None, ["encrypt", "decrypt"]), ("sig", ["verify"]), ("enc", ["wrapKey", "unwrapKey"]),
                                    (None, ["deriveKey", "deriveBits"])]),
    }).map(_flatten_params)


def _flatten_params(p):
    p = dict(p)
    uo = p.pop("use_ops", None)
    if uo:
        if uo[0]:
            p["use"] = uo[0]
        if uo[1]:
            p["key_ops"] = uo[1]
    return p


@st.composite
def rt_cases(draw):
    key = draw(any_key())
    params = draw(params_for(key["kty"]))
    entry = draw(st.sampled_from(["jwk", "jwk", "jwk-registry", "pem", "der", "pem-encrypted", "jwk-public", "pem-public", "generated"]))
    if key["kty"] == "oct" and entry not in ("jwk", "jwk-registry", "generated"):
        entry = "bytes"
    return {"part": "rt", "key": gk.key_to_record(key), "params": params, "entry": entry, "password": draw(st.sampled_from(["pw", "é secret", "x" * 40])),
            "seed": draw(st.integers(0, 10**6))}


def enter(c):
    """Bring the key into joserfc in the requested form. Returns (joserfc key, reference key that it must equal, is_private)."""
    from joserfc.jwk import OctKey, RSAKey, ECKey, OKPKey, JWKRegistry
    ref = gk.key_from_record(c["key"])
    cls = {"oct": OctKey, "RSA": RSAKey, "EC": ECKey, "OKP": OKPKey}[ref["kty"]]
    params = c["params"] or None
    e = c["entry"]
    if e == "generated":
        if ref["kty"] == "oct":
            arg = len(ref["k"]) * 8 or 8
        elif ref["kty"] == "RSA":
            arg = 2048 if c["seed"] % 7 == 0 else 1024
        else:
            arg = ref["crv"]
        k = cls.generate_key(arg, params, private=True, auto_kid=bool(c["seed"] % 2))
        d = k.as_dict(private=True)
        return k, None, True
    if e == "jwk":
        return cls.import_key({**rk.export_jwk(ref), **(c["params"] or {})}), ref, True
    if e == "jwk-registry":
        return JWKRegistry.import_key(rk.export_jwk(ref), parameters=params), ref, True
    if e == "jwk-public":
        return cls.import_key(rk.export_jwk(rk.public_of(ref), private=False), params), rk.public_of(ref), False
    if e == "bytes":
        with warnings.catch_warnings():
            warnings.simplefilter("ignore")
            return OctKey.import_key(ref["k"], params), ref, True
    if e == "pem":
        return cls.import_key(gpem.to_pem(ref, True), params), ref, True
    if e == "der":
        return JWKRegistry.import_key(gpem.to_pem(ref, True, der=True), ref["kty"], params), ref, True
    if e == "pem-encrypted":
        return cls.import_key(gpem.to_pem(ref, True, password=b"inpw"), params, password="inpw"), ref, True
    if e == "pem-public":
        return cls.import_key(gpem.to_pem(rk.public_of(ref), False), params), rk.public_of(ref), False
    raise ValueError(e)


def numbers_equal(a: dict, b: dict, private: bool) -> bool:
    pa, pb = rk.public_of(a), rk.public_of(b)
    strip = lambda k: {m: v for m, v in k.items() if m != "meta"}  # noqa
    if strip(pa) != strip(pb):
        return False
    if private and a["kty"] != "oct":
        return all(a.get(m) == b.get(m) for m in ("d",)) and ("p" not in a or {a["p"], a["q"]} == {b.get("p"), b.get("q")})
    return True


def run_rt(c) -> dict:
    from joserfc.jwk import OctKey, RSAKey, ECKey, OKPKey, JWKRegistry, KeySet
    from joserfc import jws
    f = {}
    tag = c["key"]["kty"] + (":" + c["key"]["crv"] if "crv" in c["key"] else "")
    try:
        k, ref, is_priv = enter(c)
    except Exception as e:
        return {f"C11:import-of-valid-key-raises:{c['entry']}:{tag}:{exc_key(e)}": f"{type(e).__name__}: {e}"}
    cls = type(k)
    # ---- JWK exports parse strictly and carry the same numbers
    exports = {}
    for pv in (None, True, False):
        if pv is True and not is_priv:
            continue
        try:
            d = k.as_dict(private=pv)
            d = json.loads(json.dumps(d))
        except Exception as e:
            f[f"C11:as_dict-raises:{tag}:{exc_key(e)}"] = f"as_dict(private={pv}): {type(e).__name__}: {e}"
            continue
        exports[pv] = d
        if pv is False and k.key_type == "oct":
            continue   # nothing public about an oct key
        try:
            parsed = rk.parse_jwk(d, strict=True)
        except rk.JWKError as e:
            f[f"C11:exported-jwk-not-conformant:{tag}:{str(e).split(':')[0]}"] = f"as_dict(private={pv}) = {d!r} is refused by a strict RFC 7518/8037 parser: {e}"
            continue
        if ref is not None:
            want_priv = is_priv and pv is not False
            if not numbers_equal(parsed, ref, want_priv):
                f[f"C11:exported-numbers-differ:{tag}"] = f"as_dict(private={pv}) carries other key material than the key that was imported"
            if want_priv and k.key_type != "oct" and "d" not in parsed:
                f[f"C11:private-export-lacks-private-members:{tag}"] = f"as_dict(private={pv}) of a private key: {sorted(d)}"
            if pv is False and rk.is_private(parsed):
                f[f"C11:public-export-has-private-members:{tag}"] = f"{sorted(d)}"
        # given members come back unchanged
        given = dict(c["params"] or {})
        for m, v in given.items():
            if d.get(m) != v:
                f[f"C11:given-member-changed:{m}"] = f"member {m} given as {v!r}, exported as {d.get(m)!r}"
        if c["entry"] in ("jwk", "jwk-registry", "jwk-public"):
            src = rk.export_jwk(ref if pv is not False else rk.public_of(ref), private=pv is not False)
            for m, v in src.items():
                if pv is False and m in ("d", "p", "q", "dp", "dq", "qi", "k"):
                    continue
                if d.get(m) != v:
                    f[f"C11:imported-member-not-returned:{tag}:{m}"] = f"JWK member {m}={v!r} came back as {d.get(m)!r}"
    # ---- re-import each export and compare numbers + interoperate
    base_pub = exports.get(None)
    reimported = []
    for pv, d in exports.items():
        if pv is False and k.key_type == "oct":
            continue
        for via in ("class", "registry", "keyset"):
            try:
                if via == "class":
                    k2 = cls.import_key(copy.deepcopy(d))
                elif via == "registry":
                    k2 = JWKRegistry.import_key(copy.deepcopy(d))
                else:
                    k2 = KeySet.import_key_set(KeySet([k]).as_dict(private=pv if k.key_type != "oct" else None)).keys[0]
                reimported.append((f"jwk:{pv}:{via}", k2))
            except Exception as e:
                f[f"C11:reimport-of-own-export-raises:jwk:{tag}:{exc_key(e)}"] = f"as_dict(private={pv}) -> {via}: {type(e).__name__}: {e}"
    if k.key_type != "oct":
        for enc_ in ("PEM", "DER"):
            for pv, pw in ((False, None), (None, None), (True, None)) + (((True, c["password"]),) if enc_ == "PEM" else ((None, c["password"]),)):
                if pv is True and not is_priv:
                    continue
                if pw and not is_priv:
                    continue
                try:
                    data = k.as_pem(private=pv, password=pw) if enc_ == "PEM" else k.as_der(private=pv, password=pw)
                except Exception as e:
                    f[f"C11:as_{enc_.lower()}-raises:{tag}:{exc_key(e)}"] = f"private={pv} password={'yes' if pw else 'no'}: {type(e).__name__}: {e}"
                    continue
                exported_private = is_priv and pv is not False
                if pw and exported_private:
                    # must really be encrypted: loading without the password fails
                    try:
                        gpem.load_pem(data, None)
                        f[f"C11:password-ignored:{enc_}:{'explicit' if pv else 'default'}"] = f"as_{enc_.lower()}(private={pv}, password=...) can be loaded without a password"
                    except Exception:
                        pass
                try:
                    k2 = cls.import_key(data, password=pw if exported_private else None)
                    reimported.append((f"{enc_}:{pv}:{'pw' if pw else ''}", k2))
                except Exception as e:
                    f[f"C11:reimport-of-own-export-raises:{enc_}:{tag}:{exc_key(e)}"] = f"private={pv} password={'yes' if pw else 'no'}: {type(e).__name__}: {e}"
                    continue
                try:
                    back = gpem.load_pem(data, pw.encode() if (pw and exported_private) else None)
                    if ref is not None and not numbers_equal(back, ref, exported_private):
                        f[f"C11:{enc_}-export-numbers-differ:{tag}"] = f"private={pv}"
                    if rk.is_private(back) != exported_private:
                        f[f"C11:{enc_}-export-privacy-differs:{tag}"] = f"as_{enc_.lower()}(private={pv}) of a {'private' if is_priv else 'public'} key is {'private' if rk.is_private(back) else 'public'}"
                except Exception as e:
                    f[f"C11:{enc_}-export-unparsable:{tag}:{type(e).__name__}"] = f"private={pv}: {e}"
    base_ref = ref
    if base_ref is None:
        try:
            base_ref = rk.parse_jwk(exports[None], strict=False)
        except Exception:
            base_ref = None
    for name, k2 in reimported:
        try:
            d2 = json.loads(json.dumps(k2.as_dict()))
            p2 = rk.parse_jwk(d2, strict=False)
        except Exception as e:
            f[f"C11:reimported-key-unexportable:{tag}"] = f"{name}: {type(e).__name__}: {e}"
            continue
        if base_ref is not None and not numbers_equal(p2, base_ref, k2.is_private and rk.is_private(base_ref)):
            f[f"C11:reimported-key-differs:{tag}:{name.split(':')[0]}"] = f"{name}: key material after export/import differs from the original"
    # ---- interoperation: original signs, re-imported verifies (and the reference too); ECDH secrets equal
    if is_priv and base_ref is not None and reimported:
        alg = {"oct": "HS256", "RSA": "RS256"}.get(k.key_type) or {"P-256": "ES256", "P-384": "ES384", "P-521": "ES512", "secp256k1": "ES256K",
                                                                 "Ed25519": "EdDSA", "Ed448": "EdDSA"}.get(base_ref.get("crv"))
        if alg and not (c["params"] or {}).get("use") == "enc" and "sign" in ((c["params"] or {}).get("key_ops") or ["sign"]) \
                and (c["params"] or {}).get("alg") in (None, alg) and not (k.key_type == "oct" and len(base_ref["k"]) == 0):
            try:
                tok = jws.serialize_compact({"alg": alg}, b"interop", k, algorithms=ALL_JWS)
                for name, k2 in reimported[:4]:
                    if "verify" not in ((c["params"] or {}).get("key_ops") or ["verify"]):
                        break
                    jws.deserialize_compact(tok, k2, algorithms=ALL_JWS)
                rjws.verify_compact(tok, lambda h: base_ref if base_ref["kty"] == "oct" else rk.public_of(base_ref), strict=True)
            except Exception as e:
                f[f"C11:interop-sign-verify-fails:{tag}:{type(e).__name__}"] = f"{type(e).__name__}: {e}"
        if base_ref.get("crv") in ("P-256", "P-384", "P-521", "secp256k1", "X25519", "X448") and "key_ops" not in (c["params"] or {}):
            peer_ref = gk.ec_from_d(base_ref["crv"], 987654321) if base_ref["kty"] == "EC" else gk.okp_from_seed(base_ref["crv"], bytes(range(OKP_SIZES[base_ref["crv"]])))
            peer = jkey(rk.public_of(peer_ref), "dict", False)
            try:
                want = rjwe.dh(base_ref, rk.public_of(peer_ref))
                for name, k2 in [("orig", k)] + reimported[:3]:
                    if k2.is_private and k2.exchange_derive_key(peer) != want:
                        f[f"C11:ecdh-secret-differs:{tag}"] = f"{name}"
            except Exception as e:
                f[f"C11:ecdh-interop-raises:{tag}:{type(e).__name__}"] = str(e)
    return f


# ------------------------------------------------------------------ malformed JWKs
REQUIRED = {"oct": ["k"], "RSA": ["n", "e"], "EC": ["crv", "x", "y"], "OKP": ["crv", "x"]}
OTHER_VALUES = [None, True, 7, 1.5, "not base64 !!", ["a"], {"a": 1}, [], ""]


@st.composite
def mal_cases(draw):
    mut = draw(st.sampled_from(["delete", "retype", "retype", "retype", "use-keyops", "bad-base64", "len1mod4", "partial-crt", "partial-crt", "coordinate", "coordinate", "oth", "padding", "crt-inconsistent", "empty-number"]))
    if mut in ("partial-crt", "oth", "crt-inconsistent"):
        key, private = draw(gk.rsa_key(1024, 2048)), True
    elif mut == "coordinate":
        key = draw(st.sampled_from(ALL_TYPES[2:]).flatmap(lambda t: gk.ec_key(t) if t in CURVES else gk.okp_key(t)))
        private = True if key["kty"] == "OKP" else draw(st.booleans())
    else:
        key = draw(any_key())
        private = draw(st.booleans()) or key["kty"] == "oct"
    jwk = rk.export_jwk(key if private else rk.public_of(key), private=private)
    jwk.update(draw(params_for(key["kty"])))
    members = sorted(jwk)
    c = {"part": "mal", "kty": key["kty"], "crv": key.get("crv"), "private": private, "mut": mut}
    if mut == "delete":
        m = draw(st.sampled_from(REQUIRED[key["kty"]] + ["kty"]))
        del jwk[m]
        c["member"] = m
        c["via_registry"] = True if m == "kty" else draw(st.booleans())
    elif mut == "retype":
        m = draw(st.sampled_from(members))
        cur = jwk[m]
        v = draw(st.sampled_from([x for x in OTHER_VALUES if type(x) is not type(cur) or x in ("not base64 !!",)]))
        if isinstance(cur, str) and isinstance(v, str):
            if m in ("kid", "alg", "x5t") or v == "":
                v = 7
        if m == "key_ops" and v == []:
            v = "sign"
        jwk[m] = v
        c["member"], c["value_type"] = m, jsonv.json_type(v)
        # optional members may also arrive through the `parameters` argument of import_key: same rules
        c["via_params"] = m in ("kid", "use", "key_ops", "alg", "x5t", "x5c", "x5u") and draw(st.booleans())
    elif mut == "use-keyops":
        use, ops = draw(st.sampled_from([("sig", ["encrypt"]), ("enc", ["sign"]), ("sig", ["sign", "wrapKey"]), ("enc", ["verify", "decrypt"]), ("sig", ["deriveBits"])]))
        jwk["use"], jwk["key_ops"] = use, ops
        c["via_params"] = draw(st.sampled_from([False, "key_ops", "use", "both"]))
    elif mut in ("bad-base64", "len1mod4", "padding"):
        cands = [m for m in ("k", "n", "e", "d", "p", "q", "dp", "dq", "qi", "x", "y") if m in jwk and isinstance(jwk[m], str) and len(jwk[m]) >= 1]
        if not cands:
            cands = None
            c["mut"] = "skip"
        else:
            m = draw(st.sampled_from(cands))
            s = jwk[m]
            if mut == "bad-base64":
                pos = draw(st.integers(0, len(s) - 1))
                jwk[m] = s[:pos] + draw(st.sampled_from(["+", "/", " ", "!", "\n", "=", "é", "."])) + s[pos + 1:] if s[pos] != "=" else s
                if jwk[m].endswith("=") and pos == len(s) - 1:
                    jwk[m] = "!" + s[1:]
            elif mut == "len1mod4":
                while len(s) % 4 != 1:
                    s += "A"
                jwk[m] = s
            else:
                jwk[m] = s + "=" * (-len(s) % 4)
                if jwk[m] == s:
                    c["mut"] = "skip"
            c["member"] = m
    elif mut == "partial-crt":
        if key["kty"] != "RSA" or not private:
            c["mut"] = "skip"
        else:
            # any proper, non-empty subset of the private members other than {d} alone: some CRT members without the rest,
            # or CRT members without the private exponent
            drop = draw(st.lists(st.sampled_from(["p", "q", "dp", "dq", "qi", "d", "d"]), min_size=1, max_size=5, unique=True))
            if set(drop) == {"p", "q", "dp", "dq", "qi"}:
                drop = drop[:4]
            for m in drop:
                del jwk[m]
            c["member"] = ",".join(sorted(drop))
    elif mut == "crt-inconsistent":
        # a complete private RSA JWK one of whose CRT members (or d) is another odd value of the same size: the members no longer
        # describe one key (dp != d mod (p-1), ...)
        m = draw(st.sampled_from(["dp", "dq", "qi", "d"]))
        v = rb.b64_to_int(jwk[m])
        jwk[m] = rb.int_to_b64(v + 2 if m != "swap" else v)
        if draw(st.booleans()) and m in ("dp", "dq"):
            jwk["dp"], jwk["dq"] = jwk["dq"], jwk["dp"]
        c["member"] = m
    elif mut == "coordinate":
        if key["kty"] == "EC":
            m = draw(st.sampled_from(["x", "y"] + (["d"] if private else [])))
            size = CURVES[key["crv"]].size
            new = draw(st.binary(min_size=size, max_size=size))
            if key["crv"] == "P-521":
                new = bytes([new[0] & 1]) + new[1:]
            jwk[m] = rb.encode(new)
            c["member"] = m
        elif key["kty"] == "OKP" and private:
            m = "x"
            n = OKP_SIZES[key["crv"]]
            new = draw(st.binary(min_size=n, max_size=n))
            if new == key["x"]:
                c["mut"] = "skip"
            jwk[m] = rb.encode(new)
            c["member"] = m
        else:
            c["mut"] = "skip"
    elif mut == "oth":
        if key["kty"] != "RSA" or not private:
            c["mut"] = "skip"
        else:
            jwk["oth"] = [{"r": "AQAB", "d": "AQAB", "t": "AQAB"}]
    elif mut == "empty-number":
        # a number / coordinate / private value that is present but empty (a zero-length oct secret is a key, these are not)
        cands = [m for m in ("n", "e", "d", "p", "q", "dp", "dq", "qi", "x", "y") if m in jwk]
        if not cands:
            c["mut"] = "skip"
        else:
            m = draw(st.sampled_from(cands + (["d"] if "d" in cands else [])))
            jwk[m] = ""
            c["member"] = m
    c["jwk"] = jwk
    return c


def run_mal(c) -> dict:
    from joserfc.jwk import OctKey, RSAKey, ECKey, OKPKey, JWKRegistry
    if c["mut"] == "skip":
        return {"_skip": 1}
    jwk = copy.deepcopy(c["jwk"])
    cls = {"oct": OctKey, "RSA": RSAKey, "EC": ECKey, "OKP": OKPKey}[c["kty"]]
    # DONT_CARE regions
    m = c.get("member")
    if c["mut"] == "retype" and m == "kty":
        via = "registry"           # the typed importer overrides kty (benign)
    elif c["mut"] == "delete" and m == "kty":
        via = "registry"
    else:
        via = "registry" if c.get("via_registry") else "class"
    if c["mut"] == "padding":
        # trailing '=' padding: refused by strict readers but outside the statement's list -> only counted
        pass
    with warnings.catch_warnings():
        warnings.simplefilter("ignore")
        params = None
        vp = c.get("via_params")
        if vp:
            names = [m] if c["mut"] == "retype" else {"key_ops": ["key_ops"], "use": ["use"], "both": ["use", "key_ops"]}[vp]
            params = {n: jwk.pop(n) for n in names if n in jwk}
        try:
            if params is not None:
                k = JWKRegistry.import_key(jwk, parameters=params) if via == "registry" else cls.import_key(jwk, params)
            else:
                k = JWKRegistry.import_key(jwk) if via == "registry" else cls.import_key(jwk)
        except Exception:
            return {}
    if c["mut"] == "padding":
        return {"_dont_care": "padded base64url"}
    if c["mut"] == "coordinate" and c["kty"] == "EC" and m in ("x", "y", "d"):
        # a random coordinate is on the curve only by chance: check with the reference
        try:
            rk.parse_jwk({k2: v for k2, v in jwk.items() if k2 in ("kty", "crv", "x", "y", "d")}, strict=True)
            return {"_dont_care": "mutated coordinate still forms a valid key"}
        except rk.JWKError:
            pass
    desc = f"{c['mut']} {m or ''}: JWK {json.dumps(jwk)[:300]}" + (f" with parameters {params!r}" if params else "") + " was imported"
    key = f"C11:malformed-jwk-accepted:{c['mut']}:{c['kty']}:{m if c['mut'] in ('retype', 'delete', 'coordinate', 'empty-number') else ''}"
    return {key: desc}


def run_case(c):
    return run_rt(c) if c["part"] == "rt" else run_mal(c)


# ------------------------------------------------------------------ fresh interpreters: key handling does not depend on which modules were imported
FRESH_IMPORTS = {"jwk-only": "from joserfc import jwk", "jwe-then-jwk": "from joserfc import jwe\nfrom joserfc import jwk", "jwk-then-jws": "from joserfc import jwk\nfrom joserfc import jws",
                 "keys-module": "from joserfc.jwk import ECKey, OKPKey, RSAKey, OctKey, JWKRegistry, KeySet"}
FRESH_SCRIPT = r'''
import sys, json, warnings
warnings.simplefilter("ignore")
sys.path.insert(0, sys.argv[1] + "/src")
%s
from joserfc.jwk import ECKey, OKPKey, RSAKey, OctKey, JWKRegistry, KeySet
out = {}
for name, (cls, jwk_, pem) in json.loads(sys.argv[2]).items():
    cls = {"EC": ECKey, "OKP": OKPKey, "RSA": RSAKey, "oct": OctKey}[cls]
    try:
        a = cls.import_key(jwk_).as_dict(private=True)
        b = JWKRegistry.import_key(jwk_).as_dict(private=True)
        c = cls.import_key(pem).as_dict(private=True) if pem else a
        g = cls.generate_key(jwk_.get("crv") or (1024 if cls is RSAKey else 128)).as_dict(private=True)
        ks = KeySet.import_key_set({"keys": [jwk_]}).as_dict(private=True)["keys"][0]
        bad = [w for w, d in (("jwk", a), ("registry", b), ("pem", c), ("key set", ks)) if any(d.get(m) != v for m, v in jwk_.items())]
        if g.get("crv") != jwk_.get("crv"):
            bad.append("generated")
        out[name] = bad
    except Exception as e:
        out[name] = ["%%s: %%s" %% (type(e).__name__, e)]
print(json.dumps(out))
'''


def run_fresh(order: str) -> dict:
    """A fresh interpreter imports the modules as given; one key of every type / curve goes through import (JWK, registry, PEM, key
    set), export and generation."""
    import subprocess
    import sys as _sys
    from harness.core import REPO
    keys = {}
    for name, ref in (("P-256", gk.ec_from_d("P-256", 0xA5A5A5A51234567)), ("P-521", gk.ec_from_d("P-521", 0x1234567890ABCDEF1)), ("secp256k1", gk.ec_from_d("secp256k1", 0xFEDCBA987654321)),
                      ("Ed448", gk.okp_from_seed("Ed448", bytes(range(57)))), ("X25519", gk.okp_from_seed("X25519", bytes(range(32)))), ("oct", {"kty": "oct", "k": bytes(range(20))})):
        keys[name] = [ref["kty"], rk.export_jwk(ref), gpem.to_pem(ref, True).decode() if ref["kty"] != "oct" else None]
    r = subprocess.run([_sys.executable, "-c", FRESH_SCRIPT % FRESH_IMPORTS[order], REPO, json.dumps(keys)], capture_output=True, text=True, timeout=300)
    if r.returncode != 0:
        return {f"C11:fresh-interpreter-fails:{order}": r.stderr[-300:]}
    out = json.loads(r.stdout.strip().splitlines()[-1])
    return {f"C11:key-handling-depends-on-imports:{name}": f"after `{FRESH_IMPORTS[order]}` a {name} key does not round-trip: {bad}" for name, bad in out.items() if bad}


def shards(tier):
    return [(f"r{i:02d}", {"part": "rt", "i": i}) for i in range(10)] + [(f"m{i}", {"part": "mal"}) for i in range(6)]


def run_shard(ctx, spec):
    from gens.jose import setup_joserfc
    setup_joserfc()
    MAX_RSA[0] = 3072 if ctx.tier == "quick" else 4096
    if spec["part"] == "rt" and spec.get("i", 99) < len(FRESH_IMPORTS):
        order = sorted(FRESH_IMPORTS)[spec["i"]]
        ctx.case(("fresh", order), cls="fresh-interpreter")
        for k, w in run_fresh(order).items():
            ctx.finding(k, w, {"part": "fresh", "order": order})

    def body(c):
        f = run_case(c)
        if "_skip" in f:
            return
        if "_dont_care" in f:
            ctx.dontcare(f["_dont_care"])
            return
        if c["part"] == "rt":
            ref = gk.key_from_record(c["key"])
            cl = gk.describe(ref)
            short = "short" in cl or "lead0" in cl
            ctx.case((cl, c["entry"], tuple(sorted(c["params"]))), cls=["part:roundtrip", f"kty:{c['key']['kty']}:{c['key'].get('crv', '')}", f"entry:{c['entry']}"]
                     + (["key:short"] if short else []) + (["export:pem-encrypted"] if ref["kty"] != "oct" and c["entry"] not in ("jwk-public", "pem-public") else []),
                     sample={"kty": c["key"]["kty"], "crv": c["key"].get("crv"), "class": cl, "entry": c["entry"], "params": c["params"]})
        else:
            ctx.case((c["mut"], c.get("member"), c.get("value_type"), c["kty"], c["crv"], c["private"]),
                     cls=["part:malformed", f"mut:{c['mut']}", f"kty:{c['kty']}"], sample={k: c[k] for k in ("kty", "crv", "mut") if k in c} | {"member": c.get("member"), "jwk": {k: (str(v)[:24]) for k, v in c["jwk"].items()}})
        for k, w in f.items():
            ctx.finding(k, w, c)
    if spec["part"] == "rt":
        drive(ctx, "rt", rt_cases(), body, 280 if ctx.tier == "quick" else 4000)
    else:
        drive(ctx, "mal", mal_cases(), body, 1500 if ctx.tier == "quick" else 15000)


def replay(rec) -> dict:
    from gens.jose import setup_joserfc
    setup_joserfc()
    if rec.get("part") == "fresh":
        return run_fresh(rec["order"])
    f = run_case(rec)
    return {k: v for k, v in f.items() if not k.startswith("_")}
