"""C12 - public-facing outputs never contain private key material."""
from __future__ import annotations
import base64
import binascii
import copy
import json
import re
import warnings

from hypothesis import strategies as st

from harness.core import HarnessError
from harness.hyp import drive
from gens import keys as gk, jwsplan, jweplan, pem as gpem
from gens.jose import jkey, exc_key, KEYFORMS
from ref import keys as rk, b64 as rb
from ref.ec import CURVES
from ref.okp import OKP_SIZES

LEVEL = "exploration"
RULE = ("keys of every type (secrets >= 16 octets) entered as JWK / PEM / DER with generated extra parameters; outputs scanned: "
        "as_dict(private=False), KeySet.as_dict(private=False), as_pem/as_der/as_bytes(private=False), thumbprint(), auto kid, and every JWS "
        "(14 algs x 3 serializations x RFC 7797), JWE (21 algs x 8 encs x 3 serializations, per-recipient headers, epk) and JWT produced "
        "with the key, with the ephemeral private key captured by wrapping ECKey/OKPKey.generate_key. Scanner: JSON text, every string "
        "leaf, every dot-separated segment and PEM body decoded as base64url / base64 / hex; none may contain a secret value (d, p, q, dp, "
        "dq, qi, k, ephemeral d) as raw big-endian octets (minimal or fixed width) nor its base64url / base64 / hex spelling; public "
        "dict exports contain none of the member names d, p, q, dp, dq, qi, oth, k. Keys generated with private=False through every generating entry point (key class, JWKRegistry positional/keyword, KeySet.generate_key_set) must be public-only in every export; a public key handed private-flagged members as extra parameters exports none of them publicly; an ephemeral key preset by the caller (Recipient.ephemeral_key, with kid / use parameters) leaves no private member in epk; a public key stays public when the caller afterwards completes the dict it was imported from. A private export requested from a public-only key "
        "must raise. Positive controls (private export, planted secret) must be flagged in every shard. distinct = (key class, output kind).")
ASSUMPTIONS = ["substring search is meaningful for secrets >= 16 octets (chance collisions negligible)",
               "the scanner sees octets and their usual text spellings; a secret transformed by a keyed or one-way function is out of reach"]
BUDGET_S = {"quick": 85, "thorough": 900}
FLOORS = {"quick": {"out:public-dict": 600, "out:keyset-public": 600, "out:pem-public": 400, "out:der-public": 400, "out:jws-token": 400, "out:jwe-token": 500,
                    "epk-scanned": 120, "private-from-public": 800, "control:flagged": 16}, "thorough": {"out:jwe-token": 5000}}
PRIVATE_MEMBERS = {"d", "p", "q", "dp", "dq", "qi", "oth", "k"}
ALL_TYPES = ["oct", "RSA", "P-256", "P-384", "P-521", "secp256k1", "Ed25519", "Ed448", "X25519", "X448"]


def any_key():
    return st.sampled_from(ALL_TYPES).flatmap(
        lambda t: gk.oct_key(16, 64) if t == "oct" else gk.rsa_key(1024, 3072) if t == "RSA" else gk.ec_key(t) if t in CURVES else gk.okp_key(t))


# ------------------------------------------------------------------ scanner
def secret_forms(ref: dict) -> dict:
    """name -> list of byte strings that must not occur."""
    out = {}
    for name, val in rk.secret_values(ref).items():
        forms = {val}
        if ref["kty"] == "EC":
            c = CURVES[ref["crv"]]
            forms.add(ref["d"].to_bytes(c.nsize, "big"))
        forms = {f for f in forms if len(f) >= 16}
        if forms:
            out[name] = sorted(forms)
    return out


_b64chars = re.compile(rb"^[A-Za-z0-9+/_=-]+$")
_hexchars = re.compile(rb"^[0-9a-fA-F]+$")


def _decodings(s: bytes):
    yield s
    t = s.strip()
    if not t:
        return
    if _b64chars.match(t):
        core = t.rstrip(b"=")
        for alt in (core.replace(b"-", b"+").replace(b"_", b"/"),):
            for pad in range(3):
                try:
                    yield base64.b64decode(alt + b"=" * ((-len(alt)) % 4), validate=False)
                    break
                except (binascii.Error, ValueError):
                    alt = alt[:-1]
    if _hexchars.match(t) and len(t) % 2 == 0:
        try:
            yield binascii.unhexlify(t)
        except (binascii.Error, ValueError):
            pass


def flatten(output):
    """Set of byte strings to search in."""
    blobs = set()

    def leaf(v):
        if isinstance(v, str):
            b = v.encode("utf-8", "surrogatepass")
        elif isinstance(v, (bytes, bytearray)):
            b = bytes(v)
        else:
            return
        blobs.update(_decodings(b))
        for seg in re.split(rb"[.\s]+", b):
            blobs.update(_decodings(seg))
        if b"-----BEGIN" in b:
            body = b"".join(l for l in b.splitlines() if not l.startswith(b"-----") and b":" not in l)
            blobs.update(_decodings(body))

    def walk(v):
        if isinstance(v, dict):
            for k, x in v.items():
                leaf(k)
                walk(x)
        elif isinstance(v, (list, tuple)):
            for x in v:
                walk(x)
        else:
            leaf(v)
    walk(output)
    if isinstance(output, (dict, list)):
        blobs.add(json.dumps(output, default=str).encode())
    return blobs


def not_in_inputs(secrets: dict, *inputs) -> dict:
    """Drop secrets whose octets already occur in caller-supplied content (payload, plaintext, AAD, header values):
    finding them in the token says nothing about the library (generated data such as 16 zero octets can coincide)."""
    hit = set(scan(list(inputs), secrets)) if inputs else set()
    return {n: f for n, f in secrets.items() if n not in hit}


def scan(output, secrets: dict) -> list:
    """Names of secrets found in the output."""
    blobs = flatten(output)
    text = b"\n".join(blobs)
    found = []
    for name, forms in secrets.items():
        for fbytes in forms:
            spellings = [fbytes, rb.encode(fbytes).encode(), base64.b64encode(fbytes).rstrip(b"="), binascii.hexlify(fbytes), binascii.hexlify(fbytes).upper()]
            if any(sp in blob for blob in blobs for sp in spellings[:1]) or any(sp in text for sp in spellings[1:]):
                found.append(name)
                break
    return found


# ------------------------------------------------------------------ ephemeral key capture
class Capture:
    def __init__(self):
        self.keys = []

    def __enter__(self):
        from joserfc.jwk import ECKey, OKPKey
        self.saved = []
        for cls in (ECKey, OKPKey):
            orig = cls.__dict__["generate_key"]
            self.saved.append((cls, orig))
            f = orig.__func__
            cap = self

            def wrapper(klass, *a, _f=f, **kw):
                k = _f(klass, *a, **kw)
                cap.keys.append(k)
                return k
            setattr(cls, "generate_key", classmethod(wrapper))
        return self

    def __exit__(self, *exc):
        for cls, orig in self.saved:
            setattr(cls, "generate_key", orig)

    def secrets(self):
        out = {}
        for i, k in enumerate(self.keys):
            if k.is_private:
                ref = gpem.from_crypto(k.raw_value)
                for n, forms in secret_forms(ref).items():
                    out[f"ephemeral-{n}-{i}"] = forms
        return out


# ------------------------------------------------------------------ cases
params = st.fixed_dictionaries({}, optional={"kid": st.sampled_from(["k1", "é"]), "alg": st.just("X"), "x5t": st.just("dGh1bWI"),
                                             "use_ops": st.sampled_from([("sig", None), (None, ["sign", "verify"]), ("enc", None)])})

key_case = st.fixed_dictionaries({"kind": st.just("key"), "key": any_key().map(gk.key_to_record), "form": st.sampled_from(["dict", "pem", "der", "registry"]), "params": params})
jws_case = st.fixed_dictionaries({"kind": st.just("jws"), "plan": jwsplan.plans(utf8_only=True), "keymode": st.sampled_from(jwsplan.KEYMODES), "form": st.sampled_from(KEYFORMS)})
jwe_case = st.fixed_dictionaries({"kind": st.just("jwe"), "plan": jweplan.plans(small=True), "keymode": st.sampled_from(["attached", "keyset", "callable"]),
                                  "form": st.sampled_from(KEYFORMS), "jwt": st.booleans(),
                                  # JSON serializations: the caller presets Recipient.ephemeral_key (a key object with kid / use parameters)
                                  "preset_epk": st.booleans()})


gen_case = st.fixed_dictionaries({
    "kind": st.just("gen"),
    "what": st.sampled_from([["EC", "P-256"], ["EC", "P-384"], ["EC", "P-521"], ["EC", "secp256k1"], ["OKP", "Ed25519"], ["OKP", "Ed448"], ["OKP", "X25519"], ["OKP", "X448"],
                             ["RSA", 1024], ["oct", 128], ["oct", 256]]),
    "via": st.sampled_from(["class", "class-positional", "registry-positional", "registry-keyword", "keyset", "keyset-positional"]),
    "with_params": st.booleans(), "auto_kid": st.booleans(), "count": st.integers(1, 3)})


def run_gen(c) -> tuple:
    """Keys generated as public-only (private=False) through every generating entry point, arguments in the documented order."""
    from joserfc.jwk import JWKRegistry, KeySet, OctKey, RSAKey, ECKey, OKPKey
    f, kinds = {}, []
    kty, arg = c["what"]
    params = {"use": "enc"} if c["with_params"] and kty != "OKP" else None
    cls = {"oct": OctKey, "RSA": RSAKey, "EC": ECKey, "OKP": OKPKey}[kty]
    via = c["via"]
    tag = f"{kty}:{via}"
    try:
        if via == "class":
            keys = [cls.generate_key(arg, params, private=False, auto_kid=c["auto_kid"])]
        elif via == "class-positional":
            keys = [cls.generate_key(arg, params, False, c["auto_kid"])]
        elif via == "registry-positional":
            keys = [JWKRegistry.generate_key(kty, arg, params, False, c["auto_kid"])]
        elif via == "registry-keyword":
            keys = [JWKRegistry.generate_key(kty, arg, parameters=params, private=False, auto_kid=c["auto_kid"])]
        elif via == "keyset":
            ks = KeySet.generate_key_set(kty, arg, parameters=params, private=False, count=c["count"])
            keys = list(ks.keys)
        else:
            ks = KeySet.generate_key_set(kty, arg, params, False, c["count"])
            keys = list(ks.keys)
    except Exception:
        kinds.append("generate-public-refused")
        if kty != "oct":
            # asymmetric public-only generation is documented; a refusal is not a leak, merely recorded
            pass
        return f, kinds
    if via.startswith("keyset") and len(keys) != c["count"]:
        f[f"C12:generated-set-size:{tag}"] = f"{len(keys)} keys for count={c['count']}"
    outs = []
    for k in keys:
        kinds.append("generated-public")
        if k.is_private:
            f[f"C12:public-only-generation-yields-private-key:{tag}"] = f"generate(..., private=False) returned a key with is_private=True ({kty} {arg})"
        outs.append(("as_dict", k.as_dict()))
        if kty != "oct":
            for name, thunk in (("as_pem", lambda: k.as_pem()), ("as_der", lambda: k.as_der()), ("as_pem-public", lambda: k.as_pem(private=False))):
                try:
                    outs.append((name, thunk()))
                except Exception:
                    pass
        try:
            out = k.as_dict(private=True)
            f[f"C12:private-export-from-generated-public-key-not-refused:{tag}"] = f"as_dict(private=True) returned {sorted(out)}"
        except Exception:
            pass
    if via.startswith("keyset"):
        try:
            outs.append(("KeySet.as_dict", ks.as_dict()))
        except Exception:
            pass
    for name, out in outs:
        kinds.append(f"generated-public:{name}")
        dicts = out["keys"] if isinstance(out, dict) and isinstance(out.get("keys"), list) else [out] if isinstance(out, dict) else []
        for d in dicts:
            bad = PRIVATE_MEMBERS & set(d)
            if bad:
                f[f"C12:private-member-names-in:generated-public:{name}:{tag}"] = f"{name} of a key generated with private=False has members {sorted(bad)}"
        if isinstance(out, bytes) and (b"PRIVATE KEY" in out):
            f[f"C12:private-pem-from-generated-public:{name}:{tag}"] = out[:40].decode("latin-1")
        if isinstance(out, bytes) and name == "as_der":
            from cryptography.hazmat.primitives.serialization import load_der_private_key
            try:
                load_der_private_key(out, None)
                f[f"C12:private-der-from-generated-public:{tag}"] = "default DER export of a key generated with private=False loads as a private key"
            except Exception:
                pass
    return f, kinds


def _params(p):
    p = dict(p)
    uo = p.pop("use_ops", None)
    if uo:
        if uo[0]:
            p["use"] = uo[0]
        if uo[1]:
            p["key_ops"] = uo[1]
    return p or None


def run_key(c) -> tuple:
    """Returns (findings, output kinds scanned)."""
    from joserfc.jwk import KeySet
    f, kinds = {}, []
    ref = gk.key_from_record(c["key"])
    secrets = secret_forms(ref)
    tag = ref["kty"] + (":" + ref["crv"] if "crv" in ref else "")
    if not secrets:
        return f, kinds
    # the two halves of the key pair are imported with ONE parameters dict object, as an application holding a common {"use", "alg"} would
    shared = _params(c["params"])
    k = jkey(ref, c["form"], True, shared)
    kpub = None if ref["kty"] == "oct" else jkey(rk.public_of(ref), c["form"], False, shared)
    outputs = []

    def add(kind, thunk):
        try:
            outputs.append((kind, thunk()))
        except Exception as e:
            f[f"C12:export-raises:{kind}:{tag}:{exc_key(e)}"] = f"{type(e).__name__}: {e}"
    add("public-dict", lambda: k.as_dict(private=False))
    add("public-dict", lambda: k.as_dict(private=False, extra="x"))
    add("keyset-public", lambda: KeySet([k]).as_dict(private=False))
    add("thumbprint", lambda: k.thumbprint())
    add("kid", lambda: (k.ensure_kid(), k.kid)[1])
    if ref["kty"] != "oct":
        add("pem-public", lambda: k.as_pem(private=False))
        add("der-public", lambda: k.as_der(private=False))
        add("pem-public", lambda: k.as_bytes("PEM", private=False))
        add("der-public", lambda: k.as_bytes("DER", private=False))
        add("pem-public", lambda: k.as_pem(private=False, password="pw"))
        add("der-public", lambda: k.as_der(private=False, password="pw"))
        add("der-public", lambda: k.as_bytes("DER", private=False, password="pw"))
        add("public-key-default-export", lambda: kpub.as_pem())
        add("public-key-default-export", lambda: kpub.as_dict())
        add("public-key-default-export", lambda: KeySet([kpub]).as_dict())
        # the application goes on using the JWK document it imported the public key from: it completes that dict of its own with the
        # private members (to load the private key from it next); the public key object imported before is not affected
        try:
            from joserfc.jwk import RSAKey as _R, ECKey as _E, OKPKey as _O
            doc = rk.export_jwk(rk.public_of(ref), False)
            kdoc = {"RSA": _R, "EC": _E, "OKP": _O}[ref["kty"]].import_key(doc)
            doc.update({m: v for m, v in rk.export_jwk(ref, True).items() if m not in doc})
        except Exception:
            kdoc = None
        if kdoc is not None:
            add("public-key-default-export", lambda: kdoc.as_dict())
            add("public-key-default-export", lambda: KeySet([kdoc]).as_dict())
            add("public-dict", lambda: kdoc.as_dict(private=False))
        if ref["kty"] == "RSA":
            # an RSA JWK that names its prime factors but not d: refused, or else a public key without them in any export
            try:
                from joserfc.jwk import RSAKey
                full = rk.export_jwk(ref, True)
                kd = RSAKey.import_key({m: v for m, v in full.items() if m != "d"})
            except Exception:
                kd = None
            # an RSA private JWK that carries the private exponent only (no CRT members, RFC 7518 6.3.2 lets a producer omit them)
            try:
                kc = RSAKey.import_key({m: v for m, v in full.items() if m in ("kty", "n", "e", "d")}, _params(c["params"]))
            except Exception:
                kc = None
            if kc is not None:
                add("public-dict", lambda: kc.as_dict(private=False))
                add("keyset-public", lambda: KeySet([kc]).as_dict(private=False))
                add("pem-public", lambda: kc.as_pem(private=False))
            if kd is not None:
                add("public-key-default-export", lambda: kd.as_dict())
                add("keyset-public", lambda: KeySet([kd]).as_dict(private=False))
                add("public-key-default-export", lambda: KeySet([kd]).as_dict())
        if ref["kty"] == "EC":
            # the same private key as a JWK whose coordinates lost their leading zero octets (older libraries emit that form):
            # where the library takes it, its public exports are as clean as any other
            from ref.ec import CURVES as _CV
            full = rk.export_jwk(ref, True)
            short = dict(full)
            for m_ in ("x", "y"):
                raw_ = rb.decode(full[m_]).lstrip(b"\x00") or b"\x00"
                short[m_] = rb.encode(raw_)
            if short != full:
                try:
                    from joserfc.jwk import ECKey
                    ksh = ECKey.import_key(short, _params(c["params"]))
                except Exception:
                    ksh = None
                if ksh is not None:
                    add("public-dict", lambda: ksh.as_dict(private=False))
                    add("keyset-public", lambda: KeySet([ksh]).as_dict(private=False))
        if c["form"] in ("pem", "der"):
            # a public-only key object that was handed private-flagged members as extra parameters: a public export still has none
            full = rk.export_jwk(ref, True)
            smuggled = {m: full[m] for m in (("p", "q") if ref["kty"] == "RSA" else ("d",))}
            try:
                ksm = jkey(rk.public_of(ref), c["form"], False, {**(_params(c["params"]) or {}), **smuggled})
            except Exception:
                ksm = None      # refusing such parameters is fine
            if ksm is not None:
                add("public-dict", lambda: ksm.as_dict(private=False))
                add("keyset-public", lambda: KeySet([ksm]).as_dict(private=False))
    for kind, out in outputs:
        kinds.append(kind)
        if kind in ("pem-public", "der-public") and isinstance(out, bytes):
            # whatever the password argument: a public export is not a private key container
            from cryptography.hazmat.primitives.serialization import load_pem_private_key, load_der_private_key
            for pw in (None, b"pw"):
                try:
                    (load_pem_private_key if kind == "pem-public" else load_der_private_key)(out, pw)
                    f[f"C12:public-export-is-a-private-key:{kind}:{tag}"] = f"{kind} of a {tag} key loads as a private key (password {pw!r}): {out[:40]!r}"
                except Exception:
                    pass
        hit = scan(out, secrets)
        if hit:
            f[f"C12:private-material-in:{kind}:{tag}"] = f"{kind} of a {tag} key contains its private parameter(s) {hit}: {str(out)[:160]}"
        if isinstance(out, dict):
            dicts = out["keys"] if "keys" in out and isinstance(out.get("keys"), list) else [out]
            for d in dicts:
                bad = PRIVATE_MEMBERS & set(d)
                if bad:
                    f[f"C12:private-member-names-in:{kind}:{tag}"] = f"{kind} has members {sorted(bad)}"
    # private export from a public-only key is an error
    if kpub is not None:
        for name, thunk in [("as_dict", lambda: kpub.as_dict(private=True)), ("as_pem", lambda: kpub.as_pem(private=True)), ("as_der", lambda: kpub.as_der(private=True)),
                            ("as_bytes", lambda: kpub.as_bytes("PEM", private=True)), ("as_pem+password", lambda: kpub.as_pem(private=True, password="pw")),
                            ("KeySet.as_dict", lambda: KeySet([kpub]).as_dict(private=True)),
                            # a mixed set: symmetric keys before the public-only key
                            ("KeySet.as_dict:after-oct", lambda: KeySet([jkey({"kty": "oct", "k": bytes(range(32))}, "dict", True), kpub]).as_dict(private=True)),
                            ("KeySet.as_dict:before-oct", lambda: KeySet([kpub, jkey({"kty": "oct", "k": bytes(range(32))}, "dict", True)]).as_dict(private=True))]:
            kinds.append("private-from-public")
            try:
                out = thunk()
            except Exception:
                continue
            f[f"C12:private-export-from-public-key-not-refused:{name}"] = f"{name}(private=True) on a public-only {tag} key returned {str(out)[:80]!r} instead of raising"
    return f, kinds


def run_jws(c) -> tuple:
    plan = c["plan"]
    secrets = {}
    for i, m in enumerate(plan["members"]):
        for n, forms in secret_forms(gk.key_from_record(m["key"])).items():
            secrets[f"{n}-{i}"] = forms
    if not secrets:
        return {}, []
    secrets = not_in_inputs(secrets, bytes.fromhex(plan["payload_hex"]), [m["protected"] for m in plan["members"]], [m["header"] for m in plan["members"]])
    try:
        tok, _ = jwsplan.jose_sign(plan, c["keymode"], c["form"])
    except Exception:
        return {}, []
    hit = scan(tok, secrets)
    f = {}
    if hit:
        f[f"C12:private-material-in:jws-token:{plan['ser']}"] = f"JWS ({[m['alg'] for m in plan['members']]}) contains private key material {hit}"
    return f, ["jws-token"]


def run_jwe(c) -> tuple:
    from joserfc import jwt, jwe
    plan = c["plan"]
    secrets = {}
    for i, r in enumerate(plan["recipients"]):
        for n, forms in secret_forms(gk.key_from_record(r["key"])).items():
            secrets[f"{n}-{i}"] = forms
    if plan["sender"]:
        for n, forms in secret_forms(gk.key_from_record(plan["sender"])).items():
            secrets[f"sender-{n}"] = forms
    kinds = ["jwe-token"]
    f = {}
    with Capture() as cap:
        try:
            if c["jwt"] and plan["ser"] == "compact" and not plan["sender"]:
                r0 = plan["recipients"][0]
                k0 = gk.key_from_record(r0["key"])
                key = jkey(k0 if k0["kty"] == "oct" else rk.public_of(k0), c["form"], k0["kty"] == "oct")
                hdr = {**plan["protected"], **jweplan._rec_header(plan, r0, False)}
                tok = jwt.encode(hdr, {"sub": "a"}, key, registry=jwe.JWERegistry(algorithms=jweplan.ALL_NAMES))
                kinds = ["jwe-token", "jwt"]
            else:
                tok = jweplan.jose_encrypt(plan, c["keymode"], c["form"], preset_epk=bool(c.get("preset_epk")))
        except Exception:
            return {}, []
    eph = cap.secrets()
    if eph:
        kinds.append("epk-scanned")
    secrets.update(eph)
    secrets = not_in_inputs(secrets, bytes.fromhex(plan["plaintext_hex"]), bytes.fromhex(plan["aad_hex"] or ""), plan["protected"], plan["unprotected"],
                            [r["header"] for r in plan["recipients"]], [bytes.fromhex(r["p2s"]) for r in plan["recipients"] if "p2s" in r])
    if not secrets:
        return {}, []
    hit = scan(tok, secrets)
    if hit:
        what = "ephemeral private key" if any(h.startswith("ephemeral") for h in hit) else "private key material"
        f[f"C12:private-material-in:jwe-token:{'ephemeral' if 'ephemeral' in what else 'key'}"] = \
            f"JWE ({[r['alg'] for r in plan['recipients']]}, {plan['enc']}, {plan['ser']}) contains {what} {hit}"
    # epk members
    hdrs = []
    if isinstance(tok, str):
        hdrs.append(json.loads(rb.decode(tok.split(".")[0])))
    else:
        hdrs.append(json.loads(rb.decode(tok["protected"])))
        hdrs += [r.get("header") or {} for r in (tok.get("recipients") or [tok])]
    for h in hdrs:
        epk = h.get("epk")
        if isinstance(epk, dict) and PRIVATE_MEMBERS & set(epk):
            f["C12:private-member-names-in:epk"] = f"epk = {sorted(epk)}"
    return f, kinds


def controls(ctx):
    """The scanner must flag a private export and a planted secret."""
    n = 0
    for ref in (gk.ec_from_d("P-256", 0x1234567890ABCDEF1234567890ABCDEF1234567890ABCDEF1234567890AB), {"kty": "oct", "k": bytes(range(40, 72))},
                {k: v for k, v in gk.rsa_pool()[0].items() if k != "bits"}, gk.okp_from_seed("X25519", bytes(range(100, 132)))):
        secrets = secret_forms(ref)
        k = jkey(ref, "dict", True)
        if not scan(k.as_dict(private=True), secrets):
            raise HarnessError("scanner does not flag a private JWK export")
        if ref["kty"] != "oct" and not scan(k.as_pem(private=True), secrets):
            raise HarnessError("scanner does not flag a private PEM export")
        if ref["kty"] != "oct" and not scan(k.as_der(private=True), secrets):
            raise HarnessError("scanner does not flag a private DER export")
        sec = next(iter(secrets.values()))[0]
        planted = "eyJhbGciOiJIUzI1NiJ9." + rb.encode(b"prefix" + sec + b"suffix") + ".c2ln"
        if not scan(planted, secrets) or not scan({"a": [{"b": binascii.hexlify(sec).decode()}]}, secrets):
            raise HarnessError("scanner does not flag a planted secret")
        n += 4
    ctx.count("control:flagged", n)


def run_case(c):
    with warnings.catch_warnings():
        warnings.simplefilter("ignore")
        if c["kind"] == "key":
            return run_key(c)
        if c["kind"] == "jws":
            return run_jws(c)
        if c["kind"] == "gen":
            return run_gen(c)
        return run_jwe(c)


def shards(tier):
    return ([(f"k{i}", {"part": "key"}) for i in range(5)] + [(f"s{i}", {"part": "jws"}) for i in range(4)] + [(f"e{i}", {"part": "jwe"}) for i in range(6)] +
            [("g0", {"part": "gen"})])


def run_shard(ctx, spec):
    from gens.jose import setup_joserfc
    setup_joserfc()
    controls(ctx)

    def body(c):
        f, kinds = run_case(c)
        if not kinds:
            return
        if c["kind"] == "key":
            ref = gk.key_from_record(c["key"])
            label = (gk.describe(ref), c["form"], tuple(sorted(c["params"])))
            sample = {"kind": "key", "kty": ref["kty"], "crv": ref.get("crv"), "form": c["form"], "outputs": sorted(set(kinds))}
        elif c["kind"] == "gen":
            label = ("gen", tuple(c["what"]), c["via"], c["with_params"], c["auto_kid"])
            sample = {"kind": "gen", "what": c["what"], "via": c["via"], "outputs": sorted(set(kinds))}
        elif c["kind"] == "jws":
            label = ("jws", jwsplan.plan_label(c["plan"]), c["keymode"])
            sample = {"kind": "jws", "algs": [m["alg"] for m in c["plan"]["members"]], "ser": c["plan"]["ser"], "keymode": c["keymode"]}
        else:
            label = ("jwe", jweplan.plan_label(c["plan"]), c["keymode"], c["jwt"])
            sample = {"kind": "jwe", "algs": [r["alg"] for r in c["plan"]["recipients"]], "enc": c["plan"]["enc"], "ser": c["plan"]["ser"], "epk": "epk-scanned" in kinds}
        for kd in set(kinds):
            ctx.count(f"out:{kd}" if kd not in ("epk-scanned", "private-from-public") else kd, kinds.count(kd))
        ctx.case(label, cls=[f"kind:{c['kind']}"], sample=sample, n=len(kinds))
        for k, w in f.items():
            ctx.finding(k, w, c)
    strat = {"key": key_case, "jws": jws_case, "jwe": jwe_case, "gen": gen_case}[spec["part"]]
    n = {"key": 260, "jws": 250, "jwe": 200, "gen": 600}[spec["part"]]
    drive(ctx, spec["part"], strat, body, n if ctx.tier == "quick" else n * 12)


def replay(rec) -> dict:
    from gens.jose import setup_joserfc
    setup_joserfc()
    return run_case(rec)[0]
