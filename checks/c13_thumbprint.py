"""C13 - thumbprints are the RFC 7638 value and depend only on the public key; auto kid = thumbprint, never overwritten."""
from __future__ import annotations
import copy
import json
import random
import warnings

from hypothesis import strategies as st
from hypothesis.stateful import RuleBasedStateMachine, rule, initialize, invariant

from harness.hyp import drive, drive_machine
from gens import keys as gk, pem as gpem
from gens.jose import jkey, exc_key
from ref import keys as rk
from ref.ec import CURVES

LEVEL = "exploration"
RULE = ("part A: keys of every type/size/curve (special short-coordinate scalars weighted in) presented as: conformant private JWK, public "
        "JWK, JWK with shuffled member order and optional members (kid, use, alg, key_ops, x5t), PEM and DER (private and public), and "
        "generated keys; key.thumbprint() must equal the reference RFC 7638 value computed from the key numbers (own canonical JSON + "
        "hashlib) for SHA-256, and for SHA-384/512 through thumbprint_digest_method on a subclass and rfc7638.thumbprint; all "
        "representations of one key must agree. part B: rule-based state machine over one key and key sets (ensure_kid, KeySet(), "
        "as_dict with/without overriding params, caller edits of exported dicts, public export, PEM export, repeated thumbprint(), selecting another digest on the key's class): "
        "an auto kid equals the thumbprint, an existing kid is never replaced, values are stable (part S: 2-3 keys made with ONE caller-owned parameters dict each get their own thumbprint as kid; one caller-owned JWK document used for several imports gains no member) and every later export carries the assigned kid. non-trivial: >= 2 representations "
        "of one key / keys with short coordinates; distinct = (kty/crv, key class, representation set, digest).")
ASSUMPTIONS = ["reference thumbprint = /verif/ref/keys.py:thumbprint (self-tested on RFC 7638 section 3.1)"]
BUDGET_S = {"quick": 85, "thorough": 900}
FLOORS = {"quick": {"part:A": 1500, "key:short": 200, "machine-steps": 3000, "digest:sha384": 200, "digest:sha512": 200}, "thorough": {"part:A": 15000}}

ALL_TYPES = ["oct", "RSA", "P-256", "P-384", "P-521", "secp256k1", "Ed25519", "Ed448", "X25519", "X448"]


def any_key():
    return st.sampled_from(ALL_TYPES).flatmap(
        lambda t: gk.oct_key(1, 64) if t == "oct" else gk.rsa_key(1024, 4096) if t == "RSA" else gk.ec_key(t) if t in CURVES else gk.okp_key(t))


optional = st.fixed_dictionaries({}, optional={"kid": st.sampled_from(["k1", "é", ""]), "use": st.just("sig"), "alg": st.just("X"), "x5t": st.just("dGh1bWI"),
                                               "key_ops": st.just(["sign", "verify"])})


@st.composite
def cases(draw):
    key = draw(any_key())
    return {"key": gk.key_to_record(key), "optional": draw(optional), "shuffle": draw(st.integers(0, 10**6)),
            "digest": draw(st.sampled_from(["sha256", "sha256", "sha384", "sha512"]))}


def representations(c):
    """name -> joserfc key object, for every representation of the key."""
    from joserfc.jwk import OctKey, RSAKey, ECKey, OKPKey, JWKRegistry
    ref = gk.key_from_record(c["key"])
    cls = {"oct": OctKey, "RSA": RSAKey, "EC": ECKey, "OKP": OKPKey}[ref["kty"]]
    if c["digest"] != "sha256":
        cls = type("Sub" + cls.__name__, (cls,), {"thumbprint_digest_method": c["digest"]})
    jwk = rk.export_jwk(ref)
    out = {}
    out["jwk-private"] = lambda: cls.import_key(copy.deepcopy(jwk))
    items = list({**jwk, **c["optional"]}.items())
    random.Random(c["shuffle"]).shuffle(items)
    out["jwk-shuffled-optional"] = lambda: cls.import_key(dict(items))
    # a key class of the application with a stricter parameter policy ("use" is mandatory): what is accepted changes, the RFC 7638
    # member list does not
    from joserfc.registry import JWK_PARAMETER_REGISTRY, KeyParameter, in_choices
    strict = type("Strict" + cls.__name__, (cls,), {"param_registry": {**JWK_PARAMETER_REGISTRY, "use": KeyParameter("Public Key Use", in_choices(["sig", "enc"]), required=True)}})
    out["strict-policy-subclass"] = lambda: strict.import_key({**copy.deepcopy(jwk), "use": "enc" if c["shuffle"] % 2 else "sig"})
    if ref["kty"] != "oct":
        pub = rk.export_jwk(rk.public_of(ref), private=False)
        out["jwk-public"] = lambda: cls.import_key(copy.deepcopy(pub))
        out["pem-private"] = lambda: cls.import_key(gpem.to_pem(ref, True))
        out["pem-public"] = lambda: cls.import_key(gpem.to_pem(rk.public_of(ref), False))
        out["der-private"] = lambda: cls.import_key(gpem.to_pem(ref, True, der=True))
        out["der-public"] = lambda: cls.import_key(gpem.to_pem(rk.public_of(ref), False, der=True))
        out["params"] = lambda: cls.import_key(gpem.to_pem(ref, True), {"kid": "explicit", "use": "sig"})
    else:
        def _bytes():
            with warnings.catch_warnings():
                warnings.simplefilter("ignore")
                return cls.import_key(ref["k"])
        out["bytes"] = _bytes
    return ref, out


def run_case(c) -> dict:
    from joserfc.rfc7638 import thumbprint as tp_fn
    f = {}
    ref, reps = representations(c)
    want = rk.thumbprint(ref, c["digest"])
    tag = ref["kty"] + (":" + ref["crv"] if "crv" in ref else "")
    seen = {}
    for name, mk in reps.items():
        try:
            k = mk()
            got = k.thumbprint()
        except Exception as e:
            f[f"C13:thumbprint-raises:{name}:{tag}:{exc_key(e)}"] = f"{type(e).__name__}: {e}"
            continue
        seen[name] = got
        if got != want:
            f[f"C13:thumbprint-not-rfc7638:{name}:{tag}"] = f"{name}: thumbprint() = {got!r}; RFC 7638 ({c['digest']}) value is {want!r}"
        if k.thumbprint() != got:
            f[f"C13:thumbprint-unstable:{tag}"] = name
        # explicit kid stays, auto kid equals the thumbprint
        before = k.kid
        k.ensure_kid()
        if before is not None and k.kid != before:
            f[f"C13:existing-kid-overwritten:{name}"] = f"kid {before!r} became {k.kid!r}"
        if before is None and k.kid != want:
            f[f"C13:auto-kid-not-thumbprint:{name}:{tag}"] = f"auto kid {k.kid!r} != thumbprint {want!r}"
    if len(set(seen.values())) > 1:
        f[f"C13:representations-disagree:{tag}"] = f"thumbprints differ across representations of one key: {seen!r}"
    # module-level function with an explicit digest on the exported dict
    try:
        d = next(iter(reps.values()))().as_dict()
        req = {"oct": ["k", "kty"], "RSA": ["e", "kty", "n"], "EC": ["crv", "kty", "x", "y"], "OKP": ["crv", "kty", "x"]}[ref["kty"]]
        for dg in ("sha256", "sha384", "sha512"):
            shuffled = list(req)
            random.Random(c["shuffle"]).shuffle(shuffled)
            if tp_fn(d, shuffled, dg) != rk.thumbprint(ref, dg):
                f[f"C13:rfc7638.thumbprint-differs:{dg}:{tag}"] = f"rfc7638.thumbprint(dict, fields, {dg!r}) != reference"
    except Exception as e:
        f[f"C13:rfc7638.thumbprint-raises:{tag}:{type(e).__name__}"] = str(e)
    # a key generated with a caller-chosen kid AND auto_kid=True keeps the caller's kid (a kid that is present is never replaced);
    # without one it gets its thumbprint
    try:
        from joserfc.jwk import OctKey, RSAKey, ECKey, OKPKey, JWKRegistry
        kcls = {"oct": OctKey, "RSA": RSAKey, "EC": ECKey, "OKP": OKPKey}[ref["kty"]]
        arg = {"oct": 128, "RSA": 1024}.get(ref["kty"], ref.get("crv"))
        for how, gen in (("class", lambda p: kcls.generate_key(arg, p, auto_kid=True)), ("class-public", lambda p: kcls.generate_key(arg, p, False, True)),
                         ("registry", lambda p: JWKRegistry.generate_key(ref["kty"], arg, p, True, True))):
            if how == "class-public" and ref["kty"] == "oct":
                continue
            if ref["kty"] == "RSA" and c["shuffle"] % 4:
                continue      # RSA generation is slow: one case in four
            g = gen({"kid": "chosen-at-generation", "use": "sig"})
            if g.kid != "chosen-at-generation" or g.as_dict().get("kid") != "chosen-at-generation":
                f[f"C13:existing-kid-overwritten:generate:{how}:{tag}"] = f"generate_key(..., parameters with kid, auto_kid=True) has kid {g.kid!r}"
            g2 = gen(None)
            if g2.kid != g2.thumbprint():
                f[f"C13:auto-kid-not-thumbprint:generate:{how}:{tag}"] = f"auto kid {g2.kid!r} != thumbprint {g2.thumbprint()!r}"
    except Exception as e:
        f[f"C13:generate-with-kid-raises:{tag}:{type(e).__name__}"] = str(e)
    return f


# ------------------------------------------------------------------ part B
def make_machine(ctx):
    class KidMachine(RuleBasedStateMachine):
        def __init__(self):
            super().__init__()
            self.key = None
            self.ref = None
            self.expected_kid = "unset"      # 'unset' until the library or the caller assigned one
            self.log = []

        @initialize(key=any_key(), how=st.sampled_from(["jwk", "pem", "generate-auto", "jwk-kid", "params-kid", "public", "jwk-empty-kid"]))
        def setup(self, key, how):
            from joserfc.jwk import OctKey, RSAKey, ECKey, OKPKey
            base = {"oct": OctKey, "RSA": RSAKey, "EC": ECKey, "OKP": OKPKey}[key["kty"]]
            cls = self.cls = type("Hist" + base.__name__, (base,), {})   # own subclass: its digest selection touches nothing else
            self.digest = "sha256"
            self.ref = key
            self.how = how
            jwk = rk.export_jwk(key)
            if how == "jwk" or (key["kty"] == "oct" and how in ("pem", "public")):
                self.key = cls.import_key(jwk)
            elif how == "pem":
                self.key = cls.import_key(gpem.to_pem(key, True))
            elif how == "public":
                self.key = cls.import_key(rk.export_jwk(rk.public_of(key), private=False))
            elif how == "jwk-kid":
                self.key = cls.import_key({**jwk, "kid": "given-kid"})
                self.expected_kid = "given-kid"
            elif how == "jwk-empty-kid":
                self.key = cls.import_key({**jwk, "kid": ""})      # an empty string is a kid too: never replaced
                self.expected_kid = ""
            elif how == "params-kid":
                self.key = cls.import_key(jwk, {"kid": "param-kid"})
                self.expected_kid = "param-kid"
            else:
                arg = {"oct": 128, "RSA": 1024}.get(key["kty"], key.get("crv"))
                self.key = cls.generate_key(arg, auto_kid=True)
                # numbers taken from the native key object, not from the library's own JWK export
                self.ref = {"kty": "oct", "k": self.key.raw_value} if key["kty"] == "oct" else gpem.from_crypto(self.key.raw_value)
                self.expected_kid = rk.thumbprint(self.ref)
            self.log.append(how)

        def _assigned(self):
            if self.expected_kid == "unset":
                self.expected_kid = rk.thumbprint(self.ref, self.digest)

        @rule(m=st.sampled_from(["sha256", "sha384", "sha512"]))
        def select_digest(self, m):
            self.cls.thumbprint_digest_method = m
            self.digest = m
            self.log.append(f"digest:{m}")

        @rule()
        def ensure_kid(self):
            self.key.ensure_kid()
            self._assigned()
            self.log.append("ensure_kid")

        @rule()
        def into_keyset(self):
            from joserfc.jwk import KeySet
            ks = KeySet([self.key])
            self._assigned()
            self.log.append("KeySet")
            if ks.keys[0].kid != self.expected_kid:
                self._bad("keyset-kid-differs", f"key in a set has kid {ks.keys[0].kid!r}")

        @rule(private=st.sampled_from([None, False]), override=st.sampled_from([None, "override-kid"]), edit=st.booleans())
        def export_dict(self, private, override, edit):
            params = {"kid": override} if override else {}
            d = self.key.as_dict(private=private, **params)
            self.log.append(f"as_dict(private={private},kid={override},edit={edit})")
            if override and d.get("kid") != override:
                self._bad("export-override-ignored", f"as_dict(kid={override!r}) returned kid {d.get('kid')!r}")
            if not override and self.expected_kid != "unset" and d.get("kid") != self.expected_kid:
                self._bad("export-lacks-assigned-kid", f"as_dict(private={private}) carries kid {d.get('kid')!r} although the key's kid is {self.expected_kid!r}")
            if edit:
                d["kid"] = "edited-by-caller"
                d["x-extra"] = 1

        @rule()
        def keyset_export(self):
            from joserfc.jwk import KeySet
            ks = KeySet([self.key])
            self._assigned()
            d = ks.as_dict(private=False, kid="set-level-override") if self.ref["kty"] != "oct" else ks.as_dict()
            d2 = ks.as_dict(private=False) if self.ref["kty"] != "oct" else ks.as_dict()
            self.log.append("KeySet.as_dict")
            if d2["keys"][0].get("kid") != self.expected_kid:
                self._bad("keyset-export-kid-differs", f"KeySet.as_dict lists kid {d2['keys'][0].get('kid')!r}, the key's kid is {self.expected_kid!r}")

        @rule()
        def thumb(self):
            t = self.key.thumbprint()
            self.log.append("thumbprint")
            if t != rk.thumbprint(self.ref, self.digest):
                self._bad("thumbprint-changed", f"thumbprint() = {t!r}, RFC 7638 ({self.digest}) value {rk.thumbprint(self.ref, self.digest)!r}")

        @rule()
        def read_kid(self):
            _ = self.key.kid
            self.log.append("read kid")

        @rule()
        def export_pem(self):
            if self.ref["kty"] != "oct":
                self.key.as_pem(private=False)
                self.log.append("as_pem")

        def _bad(self, what, text):
            ctx.finding(f"C13:history:{what}", f"{text}; history: {' -> '.join(self.log)}", {"history": list(self.log), "key": gk.key_to_record(self.ref), "how": self.how})

        @invariant()
        def kid_is_stable(self):
            if self.key is None:
                return
            ctx.count("machine-steps")
            ctx.case(("hist", tuple(self.log[-3:]), self.how, self.ref["kty"]), nontrivial=len(self.log) >= 2, cls="history-step")
            got = self.key.kid
            if self.expected_kid == "unset":
                if got is not None:
                    # a kid appeared although nothing assigned one: must then be the thumbprint
                    if got != rk.thumbprint(self.ref, self.digest):
                        self._bad("spurious-kid", f"kid {got!r} appeared")
                    self.expected_kid = got
            elif got != self.expected_kid:
                self._bad("kid-changed", f"kid is {got!r}, expected {self.expected_kid!r} (assigned kids are never replaced; an auto kid equals the thumbprint)")
                self.expected_kid = got
    return KidMachine


def replay_history(rec) -> dict:
    """Deterministic re-execution of a recorded history."""
    from joserfc.jwk import OctKey, RSAKey, ECKey, OKPKey, KeySet
    ref = gk.key_from_record(rec["key"])
    base = {"oct": OctKey, "RSA": RSAKey, "EC": ECKey, "OKP": OKPKey}[ref["kty"]]
    cls = type("Hist" + base.__name__, (base,), {})
    digest = "sha256"
    jwk = rk.export_jwk(ref)
    how = rec["how"]
    expected = "unset"
    if how == "pem" and ref["kty"] != "oct":
        key = cls.import_key(gpem.to_pem(ref, True))
    elif how == "public" and ref["kty"] != "oct":
        key = cls.import_key(rk.export_jwk(rk.public_of(ref), private=False))
    elif how == "jwk-kid":
        key, expected = cls.import_key({**jwk, "kid": "given-kid"}), "given-kid"
    elif how == "jwk-empty-kid":
        key, expected = cls.import_key({**jwk, "kid": ""}), ""
    elif how == "params-kid":
        key, expected = cls.import_key(jwk, {"kid": "param-kid"}), "param-kid"
    else:
        key = cls.import_key(jwk)
        if how == "generate-auto":
            key.ensure_kid()
            expected = rk.thumbprint(ref)
    f = {}
    tp = rk.thumbprint(ref)
    for step in rec["history"][1:]:
        if step.startswith("digest:"):
            digest = step.split(":")[1]
            cls.thumbprint_digest_method = digest
            tp = rk.thumbprint(ref, digest)
        elif step == "ensure_kid":
            key.ensure_kid()
            expected = tp if expected == "unset" else expected
        elif step in ("KeySet", "KeySet.as_dict"):
            ks = KeySet([key])
            expected = tp if expected == "unset" else expected
            if step == "KeySet.as_dict":
                ks.as_dict(private=False, kid="set-level-override") if ref["kty"] != "oct" else ks.as_dict()
                d2 = ks.as_dict(private=False) if ref["kty"] != "oct" else ks.as_dict()
                if d2["keys"][0].get("kid") != expected:
                    f["C13:history:keyset-export-kid-differs"] = f"KeySet.as_dict lists kid {d2['keys'][0].get('kid')!r}, expected {expected!r}"
        elif step.startswith("as_dict("):
            private = None if "private=None" in step else False
            override = "override-kid" if "kid=override-kid" in step else None
            d = key.as_dict(private=private, **({"kid": override} if override else {}))
            if not override and expected != "unset" and d.get("kid") != expected:
                f["C13:history:export-lacks-assigned-kid"] = f"as_dict carries kid {d.get('kid')!r}, the key's kid is {expected!r}"
            if "edit=True" in step:
                d["kid"] = "edited-by-caller"
        elif step == "thumbprint":
            if key.thumbprint() != tp:
                f["C13:history:thumbprint-changed"] = "thumbprint changed"
        elif step == "as_pem" and ref["kty"] != "oct":
            key.as_pem(private=False)
        got = key.kid
        if expected == "unset":
            if got is not None:
                expected = got
        elif got != expected:
            f["C13:history:kid-changed"] = f"kid is {got!r}, expected {expected!r} after {step}"
            expected = got
    return f


# ------------------------------------------------------------------ part S: several keys made with one parameters dict
shared_cases = st.fixed_dictionaries({
    "part": st.just("S"), "keys": st.lists(any_key().map(gk.key_to_record), min_size=2, max_size=3),
    "params": st.sampled_from([{}, {"use": "sig"}, {"alg": "X", "x5t": "dGh1bWI"}]),
    "how": st.sampled_from(["import-jwk", "import-pem", "generate", "generate_key_set", "import-template"]),
    "assign": st.sampled_from(["ensure_kid", "KeySet", "thumbprint-first"])})


def run_shared(c) -> dict:
    """The caller re-uses ONE parameters dict (without kid) for several keys: every key still gets its own kid."""
    from joserfc.jwk import OctKey, RSAKey, ECKey, OKPKey, KeySet
    f = {}
    P = dict(c["params"])
    before = dict(P)
    refs = [gk.key_from_record(k) for k in c["keys"]]
    objs = []
    if c["how"] == "generate_key_set":
        ref = refs[0]
        arg = {"oct": 128, "RSA": 1024}.get(ref["kty"], ref.get("crv"))
        ks = KeySet.generate_key_set(ref["kty"], arg, parameters=P, count=3)
        objs = list(ks.keys)
        refs = [({"kty": "oct", "k": k.raw_value} if ref["kty"] == "oct" else gpem.from_crypto(k.raw_value)) for k in objs]
    elif c["how"] == "import-template":
        # the caller's own JWK document (a dict with kty, no parameters argument) serves for one key after the other: it gets the
        # next key's members once the previous key has its kid; the document never gains members and earlier keys are unaffected
        T = {}
        for ref in refs:
            cls = {"oct": OctKey, "RSA": RSAKey, "EC": ECKey, "OKP": OKPKey}[ref["kty"]]
            for m in [m for m in T if m not in P]:
                del T[m]
            T.update(P)
            T.update(rk.export_jwk(ref))
            given = dict(T)
            k = cls.import_key(T)
            objs.append(k)
            if c["assign"] == "KeySet":
                KeySet([k])
            else:
                k.ensure_kid()
            if T != given:
                f["C13:shared-parameters:callers-jwk-document-changed"] = f"the JWK dict a {ref['kty']} key was imported from gained / changed {sorted(set(T) ^ set(given)) or 'values'} ({c['assign']})"
    else:
        for ref in refs:
            cls = {"oct": OctKey, "RSA": RSAKey, "EC": ECKey, "OKP": OKPKey}[ref["kty"]]
            if c["how"] == "generate":
                k = cls.generate_key({"oct": 128, "RSA": 1024}.get(ref["kty"], ref.get("crv")), P)
                objs.append(k)
            elif c["how"] == "import-pem" and ref["kty"] != "oct":
                objs.append(cls.import_key(gpem.to_pem(ref, True), P))
            else:
                objs.append(cls.import_key(rk.export_jwk(ref), P))
        if c["how"] == "generate":
            refs = [({"kty": "oct", "k": k.raw_value} if k.key_type == "oct" else gpem.from_crypto(k.raw_value)) for k in objs]
    # the first key gets its kid, then the others
    for i, k in enumerate(objs):
        try:
            if c["assign"] == "ensure_kid":
                k.ensure_kid()
            elif c["assign"] == "KeySet":
                KeySet([k])
            else:
                k.thumbprint()
                k.ensure_kid()
        except Exception as e:
            f[f"C13:shared-parameters:kid-assignment-raises:{type(e).__name__}"] = f"key #{i} of {len(objs)} keys ({c['how']}, {c['assign']}): {type(e).__name__}: {e}"
            return f
    # keys that carry one explicit kid (alternatives under one logical name, RFC 7517 4.5; the same key listed twice) put into one
    # set: a kid that is present is never replaced
    try:
        same = [{"oct": OctKey, "RSA": RSAKey, "EC": ECKey, "OKP": OKPKey}[r["kty"]].import_key({**rk.export_jwk(r), "kid": "2024-09"}) for r in refs[:2]]
        same.append(same[0])
        ks2 = KeySet(same)
        ks2.as_dict(private=False)
        got = [k.kid for k in same] + [k.as_dict().get("kid") for k in same]
        if set(got) != {"2024-09"}:
            f["C13:existing-kid-replaced:shared-kid-in-one-set"] = f"keys given the kid '2024-09' have kids {got!r} after KeySet([...]) / as_dict()"
    except Exception as e:
        f[f"C13:shared-kid-in-one-set-raises:{type(e).__name__}"] = str(e)
    for i, (k, ref) in enumerate(zip(objs, refs)):
        want = rk.thumbprint(ref)
        if k.kid != want or k.as_dict().get("kid") != want:
            f["C13:shared-parameters:kid-not-own-thumbprint"] = (f"key #{i} of {len(objs)} keys made with one parameters dict ({c['how']}, {c['assign']}) has kid "
                                                                f"{k.kid!r} / exports {k.as_dict().get('kid')!r}; its thumbprint is {want!r}")
    return f


def shards(tier):
    return [(f"a{i:02d}", {"part": "A"}) for i in range(9)] + [(f"b{i}", {"part": "B"}) for i in range(6)] + [("s0", {"part": "S"})]


def run_shard(ctx, spec):
    from gens.jose import setup_joserfc
    setup_joserfc()
    if spec["part"] == "A":
        def body(c):
            f = run_case(c)
            ref = gk.key_from_record(c["key"])
            cl = gk.describe(ref)
            ctx.case((cl, c["digest"], tuple(sorted(c["optional"]))), cls=["part:A", f"digest:{c['digest']}", f"kty:{ref['kty']}:{ref.get('crv', '')}"]
                     + (["key:short"] if ("short" in cl or "lead0" in cl) else []),
                     sample={"kty": ref["kty"], "crv": ref.get("crv"), "class": cl, "digest": c["digest"], "optional": c["optional"]})
            for k, w in f.items():
                ctx.finding(k, w, c)
        drive(ctx, "A", cases(), body, 260 if ctx.tier == "quick" else 3000)
    elif spec["part"] == "S":
        def body(c):
            f = run_shared(c)
            ctx.case(("shared", tuple(k["kty"] for k in c["keys"]), c["how"], c["assign"], tuple(sorted(c["params"]))), cls=["part:S"],
                     sample={"how": c["how"], "assign": c["assign"], "params": c["params"], "ktys": [k["kty"] for k in c["keys"]]})
            for k, w in f.items():
                ctx.finding(k, w, c)
        drive(ctx, "S", shared_cases, body, 300 if ctx.tier == "quick" else 3000)
    else:
        drive_machine(ctx, "B", make_machine(ctx), 120 if ctx.tier == "quick" else 1500, 12)


def replay(rec) -> dict:
    from gens.jose import setup_joserfc
    setup_joserfc()
    if "history" in rec:
        return replay_history(rec)
    if rec.get("part") == "S":
        return run_shared(rec)
    return run_case(rec)
