"""C14 - key sets resolve exactly the key named by kid."""
from __future__ import annotations
import copy
import json

from hypothesis import strategies as st

from harness.hyp import drive
from gens import keys as gk, jweplan
from gens.jose import jkey, ALL_JWS, exc_key
from ref import jws as rjws, jwe as rjwe, b64 as rb, keys as rk, selftest

LEVEL = "exploration"
RULE = ("key sets of 1-6 generated keys (1-4 keys of the algorithm's key type, all suitable, plus keys of other types), explicit or "
        "thumbprint kids, duplicate-free; header kid in {absent, known, unknown, empty string} placed in protected / unprotected / "
        "per-recipient header; set passed directly or through a callable; JWS (HS256, RS256, ES256, EdDSA) and JWE (A128KW, dir, "
        "RSA-OAEP, ECDH-ES on P-256 and X25519, ECDH-1PU with a sender key set and skid) in compact, flattened and general form. "
        "consume: the token is minted by the reference under exactly the named key (must be accepted) or under ANOTHER key of the set "
        "but labelled with the kid (must fail); unknown kid must raise InvalidKeyIdError; absent kid accepted iff the set holds one key; after a first use the named key is taken out of the long-lived set and the same token must then fail with InvalidKeyIdError. "
        "produce (JWS also through joserfc.rfc7797 with b64=false): with kid - the reference verifies/decrypts with that key and with no other; without kid - the header gains a kid of "
        "the set whose key has the algorithm's type, and the public key set consumes the token. import_key_set(as_dict()) preserves the "
        "multiset of (kid, public numbers). Key objects are also made the way applications do: one parameters dict object for every key (read from PEM), key.kid read before the set is built. non-trivial: set size >= 3 with >= 2 keys of the needed type; distinct = (op, alg, ser, kid "
        "state, position, key mode, set shape).")
ASSUMPTIONS = ["the empty string as kid is DONT_CARE on the producing side (treated as absent by the library)",
               "kids are duplicate-free by construction"]
BUDGET_S = {"quick": 85, "thorough": 900}
FLOORS = {"quick": {"op:consume": 1500, "op:produce": 1500, "kid:absent": 500, "kid:unknown": 400, "kid:known": 1000, "kid:mislabelled": 400,
                    "nontrivial-set": 1200, "set:size1": 300, "roundtrip-set": 300}, "thorough": {"op:consume": 15000}}

JWS_A = ["HS256", "RS256", "ES256", "EdDSA"]
JWE_A = ["A128KW", "dir", "RSA-OAEP", "ECDH-ES", "ECDH-ES+A128KW", "ECDH-1PU"]


def key_strategy(alg, curve):
    if alg == "HS256":
        return gk.oct_key(16, 48)
    if alg in ("RS256", "RSA-OAEP"):
        return gk.rsa_key(2048, 2048)
    if alg == "ES256":
        return gk.ec_key("P-256")
    if alg == "EdDSA":
        return gk.okp_key("Ed25519")
    if alg in ("A128KW", "dir"):
        return gk.oct_key(sizes=[16])
    return gk.okp_key("X25519") if curve == "X25519" else gk.ec_key("P-256")


def other_keys():
    return st.sampled_from([{"kty": "oct", "k": b"other-oct-key-000000001"}, gk.ec_from_d("P-384", 999), gk.okp_from_seed("Ed448", bytes(range(57))),
                            gk.okp_from_seed("X448", bytes(range(56))), gk.ec_from_d("secp256k1", 55)])


@st.composite
def cases(draw):
    kind = draw(st.sampled_from(["jws", "jwe"]))
    alg = draw(st.sampled_from(JWS_A if kind == "jws" else JWE_A))
    curve = draw(st.sampled_from(["P-256", "X25519"]))
    m = draw(st.sampled_from([1, 2, 2, 3, 3, 4]))
    # distinct keys: for EC also distinct x (d and n-d share the ECDH secret and are not "different keys" for agreement)
    good = draw(st.lists(key_strategy(alg, curve), min_size=m, max_size=m,
                         unique_by=lambda k: str(k["x"]) if k["kty"] == "EC" else json.dumps(gk.key_to_record(k), sort_keys=True)))
    need_kty = good[0]["kty"]
    others = [k for k in draw(st.lists(other_keys(), max_size=2, unique_by=lambda k: json.dumps(gk.key_to_record(k), sort_keys=True))) if k["kty"] != need_kty
              or (k.get("crv") != good[0].get("crv") and alg.startswith("ECDH") is False and need_kty != "oct")]
    if need_kty in ("EC", "OKP"):
        others = [k for k in others if k["kty"] != need_kty]
    if alg.startswith("ECDH"):
        others = [k for k in others if k["kty"] not in ("EC", "OKP")]   # both types are eligible for ECDH: keep only keys that are not
    keys = good + others
    order = draw(st.permutations(list(range(len(keys)))))
    keys = [keys[i] for i in order]
    explicit = draw(st.sampled_from(["explicit", "thumbprint", "mixed"]))
    kids = []
    for i, k in enumerate(keys):
        use_explicit = explicit == "explicit" or (explicit == "mixed" and i % 2 == 0)
        kids.append(f"kid-{i}" if use_explicit else None)
    good_idx = [i for i, k in enumerate(keys) if k["kty"] == need_kty and (need_kty == "oct" or k.get("crv") == good[0].get("crv") or need_kty == "RSA")]
    target = draw(st.sampled_from(good_idx))
    # the empty string is a kid like any other: now and then one key of the set is named ""
    empty_named = draw(st.sampled_from([None, None, None] + good_idx))
    if empty_named is not None and kids[empty_named] is not None:
        kids[empty_named] = ""
    ser = draw(st.sampled_from(["compact", "flattened", "general"]))
    op = draw(st.sampled_from(["consume", "produce"]))
    kidstate = draw(st.sampled_from(["known", "known", "absent", "unknown", "unknown-thumbprint", "empty", "mislabelled", "mislabelled"] if op == "consume" else
                                    ["known", "known", "absent", "unknown", "unknown-thumbprint"]))
    if kidstate == "unknown-thumbprint" and kids[target] is None:
        kidstate = "unknown"      # only a key with a kid of its own can be "named" by its thumbprint without being known under it
    if kidstate == "mislabelled" and len(good_idx) < 2:
        kidstate = "known"
    if kidstate == "empty" and "" in kids:
        kidstate, target = "known", kids.index("")
    pos = "protected" if ser == "compact" else draw(st.sampled_from(["protected", "unprotected"] if kind == "jws" else ["protected", "unprotected", "recipient"]))
    return {"kind": kind, "alg": alg, "keys": [gk.key_to_record(k) for k in keys], "kids": kids, "target": target,
            "other": draw(st.sampled_from([i for i in good_idx if i != target] or [target])), "ser": ser, "op": op, "kidstate": kidstate, "pos": pos,
            "keymode": draw(st.sampled_from(["set", "callable"])), "seed": draw(st.integers(0, 10**6)),
            "sender_set": draw(st.booleans()),
            # how the application made the key objects: one parameters dict object (a constant such as {"use": "sig"}) handed to every
            # import, keys without explicit kid read from PEM; and / or the application looked at key.kid before it built the set
            "shared_params": draw(st.sampled_from([False, False, True])), "peek_kid": draw(st.sampled_from([False, False, True]))}


class KeyProvider:
    """A key resolver that is an object with __call__ (a key directory client, say)."""

    def __init__(self, keys):
        self.keys = keys

    def __call__(self, obj):
        return self.keys


def _provide(keys, obj):
    return keys


def as_callable(keys, seed: int):
    """The forms a key callable takes in applications: a lambda, a functools.partial, an object with __call__, a bound method."""
    import functools
    return [lambda obj: keys, functools.partial(_provide, keys), KeyProvider(keys), KeyProvider(keys).__call__][seed % 4]


def eff_kids(c):
    return [kid if kid is not None else rk.thumbprint(gk.key_from_record(k)) for k, kid in zip(c["keys"], c["kids"])]


def build_sets(c):
    from joserfc.jwk import KeySet
    priv, pub = [], []
    shared = [{"use": "sig" if c["kind"] == "jws" else "enc"}, {"use": "sig" if c["kind"] == "jws" else "enc"}] if c.get("shared_params") else None
    for rec, kid in zip(c["keys"], c["kids"]):
        k = gk.key_from_record(rec)
        form = "dict"
        if shared is not None:
            # the very same dict object for every key that has no kid of its own (one object per set: private side, public side)
            params = [shared[0], shared[1]] if kid is None else [{"kid": kid, **shared[0]}] * 2
            form = "pem" if kid is None else "dict"
        else:
            params = [{"kid": kid} if kid is not None else None] * 2
        priv.append(jkey(k, form, True, params[0]))
        pub.append(jkey(k if k["kty"] == "oct" else rk.public_of(k), form, k["kty"] == "oct", params[1]))
    if c.get("peek_kid"):
        for k in priv + pub:
            k.kid    # noqa: the application logs / tests the kid before the set exists
    return KeySet(priv), KeySet(pub)


def header_kid(c):
    kids = eff_kids(c)
    return {"known": kids[c["target"]], "mislabelled": kids[c["target"]], "absent": None, "unknown": "no-such-kid", "empty": "",
            # the RFC 7638 thumbprint of a key that the set knows under an explicit kid only: not a kid of this set
            "unknown-thumbprint": rk.thumbprint(gk.key_from_record(c["keys"][c["target"]]))}[c["kidstate"]]


def place(c, base_protected, kid, kidname="kid"):
    prot, unprot, rec = dict(base_protected), {}, {}
    if kid is not None:
        {"protected": prot, "unprotected": unprot, "recipient": rec}[c["pos"]][kidname] = kid
    return prot, (unprot or None), (rec or None)


def _two_families_applicable(c) -> bool:
    if not (c["kind"] == "jwe" and c["ser"] == "general" and c["op"] == "produce" and c["kidstate"] == "absent" and c["alg"] in ("A128KW", "RSA-OAEP")):
        return False
    ks = [gk.key_from_record(k) for k in c["keys"]]
    agree = [k for k in ks if k["kty"] in ("EC", "OKP")]
    return bool(agree) and all(k["crv"] in ("P-384", "X448", "secp256k1", "P-256", "X25519") for k in agree)


def run_case(c) -> dict:
    from joserfc import jws, jwe
    if _two_families_applicable(c) and c["seed"] % 2 == 0:
        return run_multi_produce(c)
    from joserfc.errors import InvalidKeyIdError
    f = {}
    kind, alg, ser = c["kind"], c["alg"], c["ser"]
    kids = eff_kids(c)
    refkeys = [gk.key_from_record(k) for k in c["keys"]]
    privset, pubset = build_sets(c)
    # every key in a set has a kid, equal to the effective kid
    for ks in (privset, pubset):
        got = [k.kid for k in ks.keys]
        if got != kids:
            f["C14:keyset-kids-differ"] = f"kids in the key set {got!r}; expected {kids!r}"
            return f
    if c["op"] == "produce" and c["kidstate"] == "absent" and c["seed"] % 4 == 1 and len(c["keys"]) > 1 and not c.get("shared_params") and not c.get("peek_kid"):
        # the producing side's set grew after it was built: its last key was appended to .keys later and has no kid of its own yet
        # (the key chosen for a token still gets its kid recorded; the consuming side holds an ordinary set)
        grown = build_sets(dict(c, keys=c["keys"][:-1], kids=c["kids"][:-1]))[0 if kind == "jws" else 1]
        last = gk.key_from_record(c["keys"][-1])
        late = jkey(last if (kind == "jws" or last["kty"] == "oct") else rk.public_of(last), "pem" if c["kids"][-1] is None and last["kty"] != "oct" else "dict",
                    kind == "jws" or last["kty"] == "oct", {"kid": c["kids"][-1]} if c["kids"][-1] is not None else None)
        grown.keys.append(late)
        if kind == "jws":
            privset = grown
        else:
            pubset = grown
    hk = header_kid(c)
    tkey = refkeys[c["target"]]
    signer = refkeys[c["other"]] if c["kidstate"] == "mislabelled" else tkey
    where = f"{kind}:{c['op']}:{ser}"
    sender_ref = gk.ec_from_d("P-256", 4242) if tkey["kty"] == "EC" else gk.okp_from_seed("X25519", bytes(range(32)))
    is1pu = alg == "ECDH-1PU"
    from joserfc.jwk import KeySet
    sender_priv = jkey(sender_ref, "dict", True, {"kid": "sender-1"})
    sender_pub = jkey(rk.public_of(sender_ref), "dict", False, {"kid": "sender-1"})
    decoy_sender = jkey(gk.ec_from_d("P-256", 777) if tkey["kty"] == "EC" else gk.okp_from_seed("X25519", bytes(range(1, 33))), "dict", True, {"kid": "sender-2"})
    use_sset = is1pu and c["sender_set"]
    payload = b"payload"
    keyarg = (lambda s: s) if c["keymode"] == "set" else (lambda s: as_callable(s, c["seed"]))
    enc = "A128GCM"
    if c["op"] == "consume":
        # ---- mint with the reference
        if kind == "jws":
            prot, unprot, _ = place(c, {"alg": alg}, hk)
            ptext = json.dumps(prot, separators=(",", ":")).encode()
            if ser == "compact":
                tok = rjws.make_compact(ptext, payload, alg, signer)
                call = lambda: jws.deserialize_compact(tok, keyarg(pubset), algorithms=ALL_JWS).payload  # noqa
            else:
                sig = rjws.make_json_signature(ptext, unprot, payload, alg, signer)
                tok = {"payload": rb.encode(payload), **sig} if ser == "flattened" else {"payload": rb.encode(payload), "signatures": [sig]}
                call = lambda: jws.deserialize_json(copy.deepcopy(tok), keyarg(pubset), algorithms=ALL_JWS).payload  # noqa
        else:
            prot, unprot, rec = place(c, {"alg": alg, "enc": enc}, hk)
            if use_sset:
                prot["skid"] = "sender-1"
            plan = {"ser": ser, "enc": enc, "zip": None, "plaintext_hex": payload.hex(), "aad_hex": None, "protected": prot, "unprotected": unprot,
                    "recipients": [{"alg": alg, "key": gk.key_to_record(signer), "header": rec, "kid": None}],
                    "sender": gk.key_to_record(sender_ref) if is1pu else None, "place": "protected"}
            tok, _ = jweplan.ref_encrypt(plan, c["seed"], ("canonical", 0))
            sk = (KeySet([decoy_sender, sender_pub]) if use_sset else sender_pub) if is1pu else None
            if ser == "compact":
                call = lambda: jwe.decrypt_compact(tok, keyarg(privset), algorithms=jweplan.ALL_NAMES, sender_key=sk).plaintext  # noqa
            else:
                call = lambda: jwe.decrypt_json(copy.deepcopy(tok), keyarg(privset), algorithms=jweplan.ALL_NAMES, sender_key=sk).plaintext  # noqa
        try:
            got = call()
            err = None
        except Exception as e:
            got, err = None, e
        st_ = c["kidstate"]
        if st_ == "known":
            if err is not None:
                f[f"C14:known-kid-refused:{where}:{exc_key(err)}"] = f"token under key {kids[c['target']]!r} (kid in {c['pos']}) refused: {type(err).__name__}: {err}"
            elif got != payload:
                f[f"C14:known-kid-wrong-content:{where}"] = repr(got)
            elif len(c["keys"]) >= 2:
                # rotation: the key is taken out of the (long-lived) set; its kid now names no key of the set
                for ks in (privset, pubset):
                    if c["seed"] % 2:
                        ks.keys.remove(ks.keys[c["target"]])
                    else:
                        ks.keys = [k for i, k in enumerate(ks.keys) if i != c["target"]]
                try:
                    call()
                    f[f"C14:retired-kid-accepted:{where}"] = f"key {kids[c['target']]!r} was removed from the set after a first use, a token naming it is still accepted"
                except InvalidKeyIdError:
                    pass
                except Exception as e:
                    f[f"C14:retired-kid-wrong-error:{where}:{type(e).__name__}"] = f"kid {kids[c['target']]!r} no longer in the set: {type(e).__name__}: {e} instead of InvalidKeyIdError"
        elif st_ == "mislabelled":
            if err is None:
                f[f"C14:wrong-key-used:{where}"] = (f"token made under key {kids[c['other']]!r} but labelled kid={kids[c['target']]!r} was accepted: "
                                                    f"the key used is not the one named by kid")
        elif st_ in ("unknown", "empty", "unknown-thumbprint"):
            if err is None:
                f[f"C14:unknown-kid-accepted:{where}"] = f"token with kid {hk!r} accepted although no key of the set {kids!r} has it"
            elif not isinstance(err, InvalidKeyIdError):
                f[f"C14:unknown-kid-wrong-error:{where}:{type(err).__name__}"] = f"kid {hk!r} unknown in {kids!r}: raised {type(err).__name__}: {err} instead of InvalidKeyIdError"
        elif st_ == "absent":
            if len(c["keys"]) == 1:
                if err is not None:
                    f[f"C14:single-key-set-without-kid-refused:{where}:{exc_key(err)}"] = f"{type(err).__name__}: {err}"
            elif err is None:
                f[f"C14:token-without-kid-accepted-by-multi-key-set:{where}"] = f"set of {len(c['keys'])} keys accepted a token that names no kid"
        return f
    # ---- produce with joserfc
    from joserfc import rfc7797
    unenc = kind == "jws" and ser != "general" and c["seed"] % 3 == 0     # RFC 7797 unencoded payload: separate code paths
    if unenc:
        where += ":b64=false"
    try:
        if kind == "jws":
            prot, unprot, _ = place(c, {"alg": alg, "b64": False, "crit": ["b64"]} if unenc else {"alg": alg}, hk)
            mod = rfc7797 if unenc else jws
            if ser == "compact":
                tok = mod.serialize_compact(prot, payload, keyarg(privset), algorithms=ALL_JWS)
            else:
                m = {"protected": prot}
                if unprot:
                    m["header"] = unprot
                tok = mod.serialize_json(m, payload, keyarg(privset), algorithms=ALL_JWS) if ser == "flattened" else \
                    jws.serialize_json([m], payload, keyarg(privset), algorithms=ALL_JWS)
        else:
            prot, unprot, rec = place(c, {"alg": alg, "enc": enc}, hk)
            sk = (KeySet([sender_priv]) if use_sset else sender_priv) if is1pu else None
            if ser == "compact":
                tok = jwe.encrypt_compact(prot, payload, keyarg(pubset), algorithms=jweplan.ALL_NAMES, sender_key=sk)
            else:
                cls = jwe.FlattenedJSONEncryption if ser == "flattened" else jwe.GeneralJSONEncryption
                o = cls(prot, payload, unprot)
                o.add_recipient(rec)
                tok = jwe.encrypt_json(o, keyarg(pubset), algorithms=jweplan.ALL_NAMES, sender_key=sk)
        err = None
    except Exception as e:
        tok, err = None, e
    if c["kidstate"] in ("unknown", "unknown-thumbprint"):
        if err is None:
            f[f"C14:produce-with-unknown-kid-succeeded:{where}"] = f"kid {hk!r} is not in the set {kids!r} but a token was produced"
        elif not isinstance(err, InvalidKeyIdError):
            f[f"C14:unknown-kid-wrong-error:{where}:{type(err).__name__}"] = f"{type(err).__name__}: {err}"
        return f
    if err is not None:
        f[f"C14:produce-refused:{c['kidstate']}:{where}:{exc_key(err)}"] = f"{type(err).__name__}: {err} (kids {kids!r}, header kid {hk!r})"
        return f
    # which kid does the produced token carry?
    if isinstance(tok, str):
        hdr = json.loads(rb.decode(tok.split(".")[0]))
        merged = hdr
    else:
        ent = (tok.get("signatures") or tok.get("recipients") or [tok])[0]
        pseg = ent.get("protected") or tok.get("protected")
        merged = {**(json.loads(rb.decode(pseg)) if pseg else {}), **(tok.get("unprotected") or {}), **(ent.get("header") or {})}
    tk = merged.get("kid")
    if c["kidstate"] == "known":
        expect_idx = c["target"]
        if tk != kids[expect_idx]:
            f[f"C14:produced-kid-differs:{where}"] = f"header kid {tk!r} != requested {kids[expect_idx]!r}"
            return f
    else:
        if tk not in kids:
            f[f"C14:no-kid-recorded:{where}"] = f"token produced from a key set without kid carries kid={tk!r}; set has {kids!r}"
            return f
        expect_idx = kids.index(tk)
        if refkeys[expect_idx]["kty"] != tkey["kty"]:
            f[f"C14:picked-key-of-wrong-type:{where}"] = f"picked {refkeys[expect_idx]['kty']} key for {alg}"
            return f
    if use_sset and merged.get("skid") != "sender-1":
        f[f"C14:skid-not-recorded:{where}"] = f"sender key picked from a key set but skid={merged.get('skid')!r}"
    # the reference accepts with exactly that key and with no other key of the set
    for i, rkey in enumerate(refkeys):
        if rkey["kty"] != tkey["kty"] or (rkey.get("crv") != tkey.get("crv")):
            continue
        try:
            if kind == "jws":
                r = (rjws.verify_compact(tok, lambda h: rk.public_of(rkey) if rkey["kty"] != "oct" else rkey, rfc7797=unenc) if isinstance(tok, str)
                     else rjws.verify_json(tok, lambda h: rk.public_of(rkey) if rkey["kty"] != "oct" else rkey, rfc7797=unenc))
                ok = r["payload"] == payload
            else:
                r = (rjwe.decrypt_compact(tok, lambda h: rkey, rk.public_of(sender_ref)) if isinstance(tok, str)
                     else rjwe.decrypt_json(tok, lambda h: rkey, rk.public_of(sender_ref)))
                ok = r["plaintext"] == payload
        except (rjws.Reject, rjwe.Reject):
            ok = False
        if ok != (i == expect_idx):
            f[f"C14:token-made-with-another-key:{where}"] = (f"token carries kid {tk!r} (key #{expect_idx}) but the reference "
                                                             f"{'accepts' if ok else 'rejects'} it under key #{i} ({kids[i]!r})")
            break
    # and joserfc's public set consumes it
    try:
        if kind == "jws":
            mod = rfc7797 if unenc else jws
            got = (mod.deserialize_compact(tok, pubset, algorithms=ALL_JWS) if isinstance(tok, str) else mod.deserialize_json(copy.deepcopy(tok), pubset, algorithms=ALL_JWS)).payload
        else:
            sk = (KeySet([decoy_sender, sender_pub]) if use_sset else sender_pub) if is1pu else None
            got = (jwe.decrypt_compact(tok, privset, algorithms=jweplan.ALL_NAMES, sender_key=sk) if isinstance(tok, str)
                   else jwe.decrypt_json(copy.deepcopy(tok), privset, algorithms=jweplan.ALL_NAMES, sender_key=sk)).plaintext
        if got != payload:
            f[f"C14:own-token-wrong-content:{where}"] = repr(got)
    except Exception as e:
        f[f"C14:own-token-not-consumed-by-key-set:{where}:{exc_key(e)}"] = f"{type(e).__name__}: {e}"
    return f


def run_multi_produce(c) -> dict:
    """General JSON JWE for two recipients of different algorithm families, no kid anywhere, keys taken from one mixed key set: each
    recipient gets a key of ITS family and that key's kid in ITS header; the private set opens the token."""
    from joserfc import jwe
    f = {}
    kids = eff_kids(c)
    refkeys = [gk.key_from_record(k) for k in c["keys"]]
    privset, pubset = build_sets(c)
    a1 = c["alg"]
    where = "jwe:produce:general:two-families"
    o = jwe.GeneralJSONEncryption({"enc": "A128GCM"}, b"payload")
    o.add_recipient({"alg": a1})
    o.add_recipient({"alg": "ECDH-ES+A128KW"})
    arg = pubset if c["keymode"] == "set" else as_callable(pubset, c["seed"])
    try:
        tok = jwe.encrypt_json(o, arg, algorithms=jweplan.ALL_NAMES)
    except Exception as e:
        return {f"C14:produce-refused:absent:{where}:{exc_key(e)}": f"{type(e).__name__}: {e} (kids {kids!r}; recipients {a1}, ECDH-ES+A128KW)"}
    want_types = [{"oct"} if a1 == "A128KW" else {"RSA"}, {"EC", "OKP"}]
    for i, ent in enumerate(tok["recipients"]):
        tk = (ent.get("header") or {}).get("kid")
        if tk not in kids:
            f[f"C14:no-kid-recorded:{where}"] = f"recipient {i} carries kid={tk!r}; set has {kids!r}"
        elif refkeys[kids.index(tk)]["kty"] not in want_types[i]:
            f[f"C14:picked-key-of-wrong-type:{where}"] = f"recipient {i} got a {refkeys[kids.index(tk)]['kty']} key"
    if "kid" in json.loads(rb.decode(tok["protected"])):
        f[f"C14:recipient-kid-in-shared-header:{where}"] = "the kid of one recipient's key stands in the protected header shared by all recipients"
    try:
        if jwe.decrypt_json(copy.deepcopy(tok), privset, algorithms=jweplan.ALL_NAMES).plaintext != b"payload":
            f[f"C14:own-token-wrong-content:{where}"] = "other plaintext"
    except Exception as e:
        f[f"C14:own-token-not-consumed-by-key-set:{where}:{exc_key(e)}"] = f"{type(e).__name__}: {e}"
    return f


def run_roundtrip(c) -> dict:
    """import_key_set(as_dict(private=True)) preserves every key and every kid."""
    from joserfc.jwk import KeySet
    privset, _ = build_sets(c)
    f = {}
    try:
        d = privset.as_dict(private=True)
        back = KeySet.import_key_set(json.loads(json.dumps(d)))
    except Exception as e:
        return {f"C14:keyset-export-import-raises:{exc_key(e)}": f"{type(e).__name__}: {e}"}
    want = sorted((kid, json.dumps(rk.export_jwk(rk.public_of(gk.key_from_record(k)) if k["kty"] != "oct" else gk.key_from_record(k), private=True), sort_keys=True))
                  for kid, k in zip(eff_kids(c), c["keys"]))
    got = []
    for k in back.keys:
        try:
            pubd = k.as_dict(private=False) if k.key_type != "oct" else k.as_dict()
            ref = rk.parse_jwk({kk: v for kk, v in pubd.items() if kk in ("kty", "crv", "x", "y", "d", "n", "e", "p", "q", "dp", "dq", "qi", "k")}, strict=True)
            got.append((k.kid, json.dumps(rk.export_jwk(ref, private=True), sort_keys=True)))
        except Exception as e:
            return {f"C14:keyset-roundtrip-key-unparsable:{type(e).__name__}": f"{e}"}
    if sorted(got, key=lambda t: (str(t[0]), t[1])) != sorted(want, key=lambda t: (str(t[0]), t[1])):
        f["C14:keyset-roundtrip-differs"] = f"after export/import the set holds kids {[g[0] for g in got]!r}; before {[w[0] for w in want]!r}"
    if any(k.kid is None for k in back.keys):
        f["C14:key-without-kid-in-set"] = "a key of an imported set has no kid"
    # a JWKS whose entries carry no "kid" member at all: every key must survive the import and get its thumbprint as kid
    try:
        bare = {"keys": [{m: v for m, v in e.items() if m != "kid"} for e in json.loads(json.dumps(d))["keys"]]}
        back2 = KeySet.import_key_set(bare)
        tps = sorted(rk.thumbprint(gk.key_from_record(k)) for k in c["keys"])
        got2 = sorted(str(k.kid) for k in back2.keys)
        if got2 != tps:
            f["C14:kidless-jwks-import-differs"] = f"importing a JWKS of {len(tps)} entries without kid members gave keys with kids {got2!r}; expected the thumbprints {tps!r}"
    except Exception as e:
        f[f"C14:kidless-jwks-import-raises:{type(e).__name__}"] = str(e)
    # the exported document belongs to the caller (who may, say, prefix the kids before publishing it): the set itself is unchanged
    try:
        kids = eff_kids(c)
        for doc in (privset.as_dict(private=True), privset.as_dict()):
            for e in doc["keys"]:
                e["kid"] = "published-" + str(e.get("kid"))
                e.pop("k", None), e.pop("x", None), e.pop("n", None)
        now = [k.kid for k in privset.keys]
        if now != kids:
            f["C14:exported-document-aliases-the-set"] = f"after the caller edited the exported JWKS the set's kids are {now!r} (were {kids!r})"
        else:
            for kid in kids:
                privset.get_by_kid(kid)
            back3 = KeySet.import_key_set(json.loads(json.dumps(privset.as_dict(private=True))))
            if sorted(str(k.kid) for k in back3.keys) != sorted(kids):
                f["C14:exported-document-aliases-the-set"] = "a second export after the caller edited the first one differs"
    except Exception as e:
        f[f"C14:exported-document-aliases-the-set:{type(e).__name__}"] = f"after the caller edited an exported JWKS: {type(e).__name__}: {e}"
    return f


# ------------------------------------------------------------------ fresh interpreters: what a set picks does not depend on import order
IMPORT_ORDERS = {"jws-then-jwe": "from joserfc import jws\nfrom joserfc import jwe", "jwe-then-jws": "from joserfc import jwe\nfrom joserfc import jws",
                 "jwt-only": "from joserfc import jwt\nfrom joserfc import jws, jwe", "jwk-first": "from joserfc import jwk\nfrom joserfc import jws\nfrom joserfc import jwe"}
FRESH_SCRIPT = r'''
import sys, json, warnings
warnings.simplefilter("ignore")
sys.path.insert(0, sys.argv[1] + "/src")
%s
from joserfc.jwk import KeySet, OctKey, ECKey, OKPKey, RSAKey
keys = json.loads(sys.argv[2])
out = {}
def mixed(skip=None):
    # every key of a type is suitable for the algorithms of that type (no Edwards key where ECDH may pick an OKP key)
    return KeySet([{"oct": OctKey, "EC": ECKey, "OKP": OKPKey, "RSA": RSAKey}[k["kty"]].import_key(k) for k in keys if k["kty"] != skip])
for alg, kty in (("HS256", "oct"), ("ES256", "EC"), ("EdDSA", "OKP")):
    bad = []
    for i in range(12):
        ks = mixed()
        try:
            t = jws.serialize_compact({"alg": alg}, b"payload", ks, algorithms=[alg])
            o = jws.deserialize_compact(t, ks, algorithms=[alg])
            picked = [k for k in ks.keys if k.kid == o.headers().get("kid")]
            if not picked or picked[0].key_type != kty:
                bad.append("kid of a %%s key" %% (picked[0].key_type if picked else "no"))
        except Exception as e:
            bad.append(type(e).__name__)
    out["jws:" + alg] = bad
for alg, kty in (("A128KW", "oct"), ("ECDH-ES", "EC")):
    bad = []
    for i in range(8):
        ks = mixed("OKP")
        try:
            t = jwe.encrypt_compact({"alg": alg, "enc": "A128GCM"}, b"payload", ks)
            if jwe.decrypt_compact(t, ks).plaintext != b"payload":
                bad.append("other plaintext")
        except Exception as e:
            bad.append(type(e).__name__)
    out["jwe:" + alg] = bad
print(json.dumps(out))
'''


def run_import_order(order: str) -> dict:
    """In a fresh interpreter the modules are imported in the given order; a mixed key set then signs / encrypts without kid."""
    import subprocess
    import sys as _sys
    from harness.core import REPO
    keys = [rk.export_jwk({"kty": "oct", "k": bytes(range(16))}), rk.export_jwk(gk.ec_from_d("P-256", 0xABCDEF123457)),
            rk.export_jwk(gk.okp_from_seed("Ed25519", bytes(range(1, 33)))), rk.export_jwk({a: b for a, b in gk.rsa_pool()[2].items() if a != "bits"})]
    r = subprocess.run([_sys.executable, "-c", FRESH_SCRIPT % IMPORT_ORDERS[order], REPO, json.dumps(keys)], capture_output=True, text=True, timeout=300)
    if r.returncode != 0:
        return {f"C14:fresh-interpreter-fails:{order}": r.stderr[-300:]}
    out = json.loads(r.stdout.strip().splitlines()[-1])
    f = {}
    for what, bad in out.items():
        if bad:
            f[f"C14:mixed-set-without-kid-fails:{what.split(':')[0]}:import-order"] = (f"modules imported in the order {order}: {what} with a mixed key set (oct, EC, RSA, for JWS also OKP) and no kid "
                                                                                   f"failed {len(bad)} times ({sorted(set(bad))})")
    return f


def shards(tier):
    return [(f"k{i:02d}", {"i": i}) for i in range(16)]


def run_shard(ctx, spec):
    from gens.jose import setup_joserfc
    setup_joserfc()
    selftest.run()

    def body(c):
        f = run_case(c)
        n = len(c["keys"])
        same = sum(1 for k in c["keys"] if k["kty"] == c["keys"][c["target"]]["kty"])
        ctx.case((c["op"], c["alg"], c["ser"], c["kidstate"], c["pos"], c["keymode"], n, same, tuple(k is None for k in c["kids"])),
                 nontrivial=True, cls=[f"op:{c['op']}", f"kid:{c['kidstate']}", f"alg:{c['alg']}", f"ser:{c['ser']}", f"pos:{c['pos']}", f"keymode:{c['keymode']}",
                                       f"set:size{n if n < 3 else '3+'}"] + (["nontrivial-set"] if n >= 3 and same >= 2 else []),
                 sample={k: c[k] for k in ("kind", "alg", "kids", "target", "ser", "op", "kidstate", "pos", "keymode")})
        for k, w in f.items():
            ctx.finding(k, w, c)
        if c["seed"] % 5 == 0:
            f2 = run_roundtrip(c)
            ctx.case(("rt", n, tuple(k["kty"] for k in c["keys"]), tuple(k is None for k in c["kids"])), cls="roundtrip-set")
            for k, w in f2.items():
                ctx.finding(k, w, dict(c, roundtrip=True))
    if spec["i"] < len(IMPORT_ORDERS):
        order = sorted(IMPORT_ORDERS)[spec["i"]]
        ctx.case(("import-order", order), cls="import-order")
        for k, w in run_import_order(order).items():
            ctx.finding(k, w, {"import_order": order})
    drive(ctx, "kid", cases(), body, 300 if ctx.tier == "quick" else 8000)


def replay(rec) -> dict:
    from gens.jose import setup_joserfc
    setup_joserfc()
    if "import_order" in rec:
        return run_import_order(rec["import_order"])
    return run_roundtrip(rec) if rec.get("roundtrip") else run_case(rec)
