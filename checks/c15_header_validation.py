"""C15 - header parameters are validated when producing and when consuming.

A case is a valid base header plus exactly one rule violation (or none, exercising a caller-registered parameter / strict off).
Consumption-side tokens are validly signed / encrypted by the reference over exactly that header, so the cryptographic check would pass.
"""
from __future__ import annotations
import copy
import json

from hypothesis import strategies as st

from harness.core import HarnessError
from harness.hyp import drive
from harness.fork import in_child
from gens import keys as gk, jweplan, jsonv
from gens.jose import jkey, ALL_JWS, exc_key
from ref import jws as rjws, jwe as rjwe, b64 as rb, keys as rk, selftest

LEVEL = "exploration"
RULE = ("header = valid base header + exactly one violation drawn from: required parameter missing (alg; enc; on consumption epk / p2s / "
        "p2c / iv / tag), registered parameter (alg, jku, jwk, kid, x5u, x5c, x5t, x5t#S256, typ, cty, crit, enc, zip, epk, apu, apv, p2s, "
        "p2c, iv, tag, skid, b64) given a value of each other JSON type (for booleans also the numbers 0, 1, 0.0, 1.0), crit naming an absent parameter, b64 without crit (RFC 7797), "
        "unregistered name under strict checking (also when the header lists it in crit), caller-registered parameter with wrong type / required but missing; or no violation "
        "(caller-registered parameter with right type, unregistered name with strict off) which MUST be accepted; caller re-registration of kid / cty as required. Position: protected, "
        "unprotected, per-recipient (also of the second of two recipients, every-recipient and any-recipient validation); direction: produce (joserfc serializes) and consume (reference-minted valid token); JWS compact / "
        "flattened / general / RFC 7797, JWE compact / flattened / general over dir, A128KW, ECDH-ES, PBES2, A128GCMKW; JWE JSON objects also reused as a template (clean header encrypted or read first, then the header under test put into the same object). distinct = "
        "(rule, parameter, JSON type, position, direction, entry).")
ASSUMPTIONS = ["DONT_CARE: bool where int is demanded (p2c: true), crit: [] and crit naming standard parameters, non-URL strings for jku/x5u, "
               "b64 given to the plain joserfc.jws functions with strict off",
               "JWE 'enc' and 'zip' are only placed in the protected header (the only placement the library reads)"]
BUDGET_S = {"quick": 85, "thorough": 900}
FLOORS = {"quick": {"rule:type": 2500, "rule:missing": 300, "rule:crit": 300, "rule:unregistered": 300, "rule:custom-ok": 200, "rule:custom-required": 150,
                    "rule:strict-off": 150, "dir:consume": 2000, "dir:produce": 2000, "must-accept": 500}, "thorough": {"rule:type": 25000}}

TYPES = {  # registered parameter -> demanded JSON type
    "alg": "str", "jku": "str", "jwk": "object", "kid": "str", "x5u": "str", "x5c": "list[str]", "x5t": "str", "x5t#S256": "str",
    "typ": "str", "cty": "str", "crit": "list[str]",
}
JWE_TYPES = {**TYPES, "enc": "str", "zip": "str"}
ALG_SPECIFIC = {"ECDH-ES": {"epk": "object", "apu": "str", "apv": "str"}, "PBES2-HS256+A128KW": {"p2s": "str", "p2c": "int"},
                "A128GCMKW": {"iv": "str", "tag": "str"}, "ECDH-1PU": {"epk": "object", "apu": "str", "apv": "str", "skid": "str"}}
SAMPLE = {"null": None, "bool": True, "int": 7, "float": 1.5, "str": "text", "list": [1, "a"], "list[str]": ["a", "b"], "object": {"a": 1}, "empty-list": []}
GOOD = {"jku": "https://example.com/k", "jwk": {"kty": "oct", "k": "AAAA"}, "kid": "k1", "x5u": "https://example.com/c", "x5c": ["MIIB"],
        "x5t": "dGh1bWI", "x5t#S256": "dGh1bWI", "typ": "JWT", "cty": "json", "zip": "DEF", "apu": "QWxpY2U", "apv": "Qm9i", "skid": "s1"}


def wrong_types(demanded):
    out = []
    if demanded == "bool":
        out += [("int:0", 0), ("int:1", 1), ("float:0.0", 0.0), ("float:1.0", 1.0)]     # equal to False / True, yet JSON numbers
    for t, v in SAMPLE.items():
        if t == demanded:
            continue
        if demanded == "list[str]" and t == "empty-list":
            continue  # [] is a (vacuous) list of strings
        if demanded == "int" and t == "bool":
            continue  # isinstance(True, int): DONT_CARE
        if demanded == "object" and t == "object":
            continue
        out.append((t, v))
    if demanded == "object":     # not objects, though a membership test for a JWK member name succeeds on them
        out += [("str:kty", "kty"), ("list:kty", ["kty", "oct"])]
    return out


_K = None


def K():
    global _K
    if _K is None:
        ref = {"oct32": {"kty": "oct", "k": bytes(range(32))}, "oct16": {"kty": "oct", "k": bytes(range(16))}, "P-256": gk.ec_from_d("P-256", 31337),
               "P-256s": gk.ec_from_d("P-256", 31338)}
        _K = {"ref": ref, "obj": {n: jkey(k, "dict", True) for n, k in ref.items()}}
    return _K


JWE_BASE = {"dir": "oct16", "A128KW": "oct16", "ECDH-ES": "P-256", "PBES2-HS256+A128KW": "oct32", "A128GCMKW": "oct16"}


@st.composite
def cases(draw):
    kind = draw(st.sampled_from(["jws", "jwe"]))
    direction = draw(st.sampled_from(["produce", "consume"]))
    ser = draw(st.sampled_from(["compact", "flattened", "general"]))
    rfc7797 = kind == "jws" and ser != "general" and draw(st.integers(0, 3)) == 0
    alg = "HS256" if kind == "jws" else draw(st.sampled_from(sorted(JWE_BASE)))
    types = dict(TYPES if kind == "jws" else JWE_TYPES)
    if rfc7797:
        types["b64"] = "bool"
    if kind == "jwe":
        types.update(ALG_SPECIFIC.get(alg, {}))
    rule = draw(st.sampled_from(["type", "type", "type", "type", "missing", "crit", "unregistered", "strict-off", "custom-ok", "custom-type", "custom-required",
                                 "alg-specific-missing", "b64-no-crit", "unregistered-crit", "custom-crit", "none"]))
    if kind == "jwe" and direction == "consume" and alg in ALG_SPECIFIC and rule in ("b64-no-crit", "custom-required") and draw(st.booleans()):
        rule = "alg-specific-missing"      # rules with little to say about this combination make room for the one that has
    pos = "protected" if ser == "compact" else draw(st.sampled_from(["protected", "unprotected"] + (["recipient"] if kind == "jwe" else [])))
    c = {"kind": kind, "dir": direction, "ser": ser, "rfc7797": rfc7797, "alg": alg, "rule": rule, "pos": pos, "seed": draw(st.integers(0, 1000)),
         # a registry with caller-registered parameters is created (and used) first: it must not influence the registry under test
         "prelude": draw(st.booleans())}
    if rule == "type":
        name = draw(st.sampled_from(sorted(types)))
        t, v = draw(st.sampled_from(wrong_types(types[name])))
        c.update(name=name, jtype=t, value=v)
        if name in ("enc", "zip", "b64", "crit") or (name == "alg" and kind == "jws"):
            c["pos"] = "protected"
        # the badly typed member stands in an unprotected header while the protected header carries a good value of the same name
        c["shadow"] = c["pos"] != "protected" and name in GOOD and draw(st.booleans())
    elif rule == "missing":
        c["name"] = draw(st.sampled_from(["alg", "enc"] if kind == "jwe" else ["alg"]))
    elif rule == "crit":
        c["name"] = draw(st.sampled_from(["exp", "nope", "kid", "b64"]))
    elif rule == "unregistered-crit":
        # an unregistered parameter that the header itself lists in crit: listing it does not register it
        c["name"] = draw(st.sampled_from(["x-ext", "foo", "exp", "b65"]))
        c["value"] = draw(st.sampled_from([1, "v", [1], {"a": 1}, True]))
    elif rule in ("unregistered", "strict-off"):
        # invented names, and names that only OTHER algorithms or the other token kind define
        foreign = [n for a, d in ALG_SPECIFIC.items() if not (kind == "jwe" and (a == alg or (a == "ECDH-1PU" and False))) for n in d
                   if not (kind == "jwe" and n in ALG_SPECIFIC.get(alg, {}))]
        foreign = sorted(set(foreign) | ({"enc", "zip"} if kind == "jws" else set()))
        c["name"] = draw(st.sampled_from(["x-ext", "foo", "custom", "b65"] + (foreign if rule == "unregistered" else [])))
        c["value"] = draw(st.sampled_from([1, "v", [1], {"a": 1}, None])) if c["name"] in ("x-ext", "foo", "custom", "b65") else \
            {"epk": {"kty": "EC"}, "p2c": 8, "zip": "DEF", "enc": "A128GCM"}.get(c["name"], "dGV4dA")
    elif rule in ("custom-ok", "custom-type", "custom-required", "custom-crit"):
        # a caller may also re-register a standard parameter, e.g. to make kid or cty mandatory
        c["name"] = draw(st.sampled_from(["custom", "x-ext"] + (["kid", "cty"] if rule == "custom-required" else [])))
        c["ctype"] = "str" if c["name"] in ("kid", "cty") else draw(st.sampled_from(["str", "int", "bool", "list[str]", "url", "jwk"]))
        good = {"str": "v", "int": 5, "bool": False, "list[str]": ["a"], "url": "https://a/b", "jwk": {"kty": "oct"}}[c["ctype"]]
        bad = {"str": 5, "int": "5", "bool": draw(st.sampled_from(["no", 0, 1, 1.0])), "list[str]": [1], "url": 7, "jwk": "oct"}[c["ctype"]]
        c["value"] = good if rule != "custom-type" else bad
        c["required"] = rule == "custom-required" or (draw(st.booleans()) and rule != "custom-crit")
    elif rule == "alg-specific-missing":
        if kind != "jwe" or alg not in ALG_SPECIFIC or direction != "consume":
            c["rule"] = "none"
        else:
            c["name"] = draw(st.sampled_from([n for n in ALG_SPECIFIC[alg] if n in ("epk", "p2s", "p2c", "iv", "tag")]))
            if ser == "general" and alg in ("A128GCMKW", "PBES2-HS256+A128KW") and draw(st.integers(0, 3)) != 0:
                # the member is missing in the header of the SECOND of two recipients; the first one is complete and decryptable
                c["second_of_two"] = draw(st.sampled_from(["all", "any", "any"]))
                c["pos"] = "recipient"
    elif rule == "b64-no-crit":
        if not rfc7797:
            c["rule"] = "none"
    if kind == "jwe" and direction == "produce" and ser != "compact":
        c["template"] = draw(st.sampled_from([None, None, "encrypt-first", "headers-first"]))
    # strict checking only concerns unregistered names: every other rule holds when it is switched off
    c["lenient"] = c["rule"] in ("type", "missing", "crit", "custom-type", "custom-required", "b64-no-crit", "alg-specific-missing") and draw(st.integers(0, 3)) == 0
    if kind == "jwe" and ser == "general" and direction == "consume" and c["pos"] == "recipient" and alg in ("A128KW", "A128GCMKW", "PBES2-HS256+A128KW"):
        # the header under test belongs to the SECOND of two recipients (the first one is clean and decryptable);
        # every recipient must be valid ("all") or one suffices ("any": verify_all_recipients=False)
        c["multi"] = draw(st.sampled_from([None, "all", "any"]))
        if rule == "custom-crit":
            c["multi"] = None         # crit stands in the shared protected header: every recipient would have to carry the parameter
        if c["multi"] and rule in ("custom-ok", "custom-type"):
            c["required"] = False     # the clean first recipient does not carry the caller-registered parameter
    return c


def build_headers(c):
    """Returns (protected, unprotected, recipient_header, expectation) expectation in {'reject','accept','dont_care'}."""
    kind, alg = c["kind"], c["alg"]
    prot = {"alg": alg} if kind == "jws" else {"alg": alg, "enc": "A128GCM"}
    if c["rfc7797"]:
        prot.update({"b64": True, "crit": ["b64"]})
    unprot, rec = {}, {}
    target = {"protected": prot, "unprotected": unprot, "recipient": rec}[c["pos"]]
    exp = "accept"
    rule = c["rule"]
    name = c.get("name")
    if rule == "type":
        if name in ("enc", "zip", "b64", "crit") or (name == "alg" and kind == "jws"):
            target = prot
        target[name] = c["value"]
        if name in prot and target is not prot:
            del prot[name]
        if c.get("shadow") and target is not prot:
            prot[name] = GOOD[name]
        exp = "reject"
        if name == "crit" and c["jtype"] == "list[str]":
            exp = "dont_care"
    elif rule == "missing":
        prot.pop(name, None)
        exp = "reject"
    elif rule == "crit":
        crit = list(prot.get("crit", [])) + [name]
        prot["crit"] = crit
        exp = "reject"
        if name == "kid":
            target["kid"] = "k1"
            exp = "dont_care"   # crit naming a present standard parameter
        if name == "b64" and c["rfc7797"]:
            exp = "dont_care"
    elif rule == "unregistered-crit":
        target[name] = c["value"]
        prot["crit"] = list(prot.get("crit", [])) + [name]
        exp = "reject"
    elif rule == "unregistered":
        target[name] = c["value"]
        exp = "reject"
    elif rule == "strict-off":
        target[name] = c["value"]
        exp = "accept"
    elif rule == "custom-ok":
        target[name] = c["value"]
        exp = "accept"
    elif rule == "custom-crit":
        # an extension the application registered with THIS registry, and understands, may be listed as critical
        target[name] = c["value"]
        prot["crit"] = list(prot.get("crit", [])) + [name]
        exp = "accept"
    elif rule == "custom-type":
        target[name] = c["value"]
        exp = "reject"
    elif rule == "custom-required":
        exp = "reject"
    elif rule == "b64-no-crit":
        prot.pop("crit", None)
        if c["seed"] % 2:
            # a crit is there, but it lists another (present) parameter, not b64
            prot["crit"] = ["cty"]
            prot["cty"] = "json"
        exp = "reject"
    elif rule == "alg-specific-missing":
        exp = "reject"
    return prot, (unprot or None), (rec or None), exp


def registries(c):
    from joserfc import jws, jwe, rfc7797
    from joserfc.registry import HeaderParameter
    hr = None
    if c["rule"] in ("custom-ok", "custom-type", "custom-required", "custom-crit"):
        hr = {c["name"]: HeaderParameter("caller registered", c["ctype"], c.get("required", False))}
    strict = c["rule"] != "strict-off" and not c.get("lenient")
    if c["kind"] == "jws":
        cls = rfc7797.JWSRegistry if c["rfc7797"] else jws.JWSRegistry
        if hr is None and strict and c["seed"] % 2:
            return {"algorithms": ALL_JWS}
        if c["seed"] % 4 == 1:
            return {"registry": cls(hr, ALL_JWS, strict)}       # positionally: header_registry, algorithms, strict_check_header
        if c["seed"] % 3 == 0:
            # the caller's registry together with a list of names: for JWS the registry (and its header rules) stays in charge
            return {"registry": cls(header_registry=hr, algorithms=ALL_JWS, strict_check_header=strict), "algorithms": ALL_JWS}
        return {"registry": cls(header_registry=hr, algorithms=ALL_JWS, strict_check_header=strict)}
    if hr is None and strict and c["seed"] % 2 and c.get("multi") != "any":
        return {"algorithms": jweplan.ALL_NAMES}
    if c["seed"] % 4 == 0:
        # the documented parameter order, given positionally: header_registry, algorithms, verify_all_recipients, strict_check_header
        return {"registry": jwe.JWERegistry(hr, jweplan.ALL_NAMES, c.get("multi") != "any", strict)}
    return {"registry": jwe.JWERegistry(header_registry=hr, algorithms=jweplan.ALL_NAMES, strict_check_header=strict, verify_all_recipients=c.get("multi") != "any")}


def prelude():
    """Another registry, with the names used by the 'unregistered' cases registered as caller parameters, is built and used."""
    from joserfc import jws, jwe
    from joserfc.registry import HeaderParameter
    k = K()
    extra = {n: HeaderParameter("caller registered elsewhere", "str") for n in ("x-ext", "foo", "custom", "b65")}
    r1 = jws.JWSRegistry(header_registry=extra, algorithms=["HS256"])
    r2 = jwe.JWERegistry(header_registry=extra, algorithms=["dir", "A128GCM"])
    jws.serialize_compact({"alg": "HS256", "custom": "v"}, b"x", k["obj"]["oct32"], registry=r1)
    jwe.encrypt_compact({"alg": "dir", "enc": "A128GCM", "foo": "v"}, b"x", k["obj"]["oct16"], registry=r2)


def run_case(c) -> dict:
    from joserfc import jws, jwe, rfc7797
    if c.get("prelude"):
        prelude()
    prot, unprot, rec, exp = build_headers(c)
    if c["ser"] == "compact" and (unprot or rec):
        return {"_skip": 1}
    kw = registries(c)
    k = K()
    kind = c["kind"]
    payload = b"payload"
    status = None
    err = None
    try:
        if kind == "jws":
            key = k["obj"]["oct32"]
            mod = rfc7797 if c["rfc7797"] else jws
            if c["dir"] == "produce":
                p, u = copy.deepcopy(prot), copy.deepcopy(unprot)
                if c["ser"] == "compact":
                    mod.serialize_compact(p, payload, key, **kw)
                else:
                    m = {"protected": p}
                    if u:
                        m["header"] = u
                    if c["ser"] == "flattened":
                        mod.serialize_json(m, payload, key, **kw)
                    else:
                        jws.serialize_json([m], payload, key, **kw)
            else:
                rkey = k["ref"]["oct32"]
                ptext = json.dumps(prot, separators=(",", ":")).encode() if prot else None
                if c["ser"] == "compact":
                    tok = rjws.make_compact(ptext, payload, "HS256", rkey)
                    mod.deserialize_compact(tok, key, **kw)
                else:
                    sig = rjws.make_json_signature(ptext, unprot, payload, "HS256", rkey)
                    tok = {"payload": rb.encode(payload), **sig} if c["ser"] == "flattened" else {"payload": rb.encode(payload), "signatures": [sig]}
                    (mod if c["ser"] == "flattened" else jws).deserialize_json(tok, key, **kw)
        else:
            alg = c["alg"]
            kn = JWE_BASE[alg]
            key = k["obj"][kn]
            if c["dir"] == "produce":
                p, u, r = copy.deepcopy(prot), copy.deepcopy(unprot), copy.deepcopy(rec)
                if alg.startswith("PBES2"):
                    p.setdefault("p2c", 8) if isinstance(p, dict) and "p2c" not in (r or {}) and "p2c" not in (u or {}) else None
                if c["ser"] == "compact":
                    jwe.encrypt_compact(p, payload, key, **kw)
                else:
                    cls = jwe.FlattenedJSONEncryption if c["ser"] == "flattened" else jwe.GeneralJSONEncryption
                    if c.get("template"):
                        # one object used as a template: a clean header first (encrypted, or merely looked at), then the header under
                        # test is put into the same object, which is encrypted (again): every call validates what it is about to emit
                        clean = {"alg": alg, "enc": "A128GCM"}
                        if alg.startswith("PBES2"):
                            clean["p2c"] = 8
                        o = cls(clean, b"first message")
                        o.add_recipient(None, key)
                        if c["template"] == "encrypt-first":
                            jwe.encrypt_json(o, None, algorithms=jweplan.ALL_NAMES)
                        else:
                            o.recipients[0].headers()
                        o.plaintext = payload
                        o.protected.clear()
                        o.protected.update(p)
                        o.unprotected = u
                        o.recipients[0].header = r
                    else:
                        o = cls(p, payload, u)
                        o.add_recipient(r, key)
                    jwe.encrypt_json(o, None, **kw)
            else:
                rkey = k["ref"][kn]
                recd = {"alg": alg, "key": gk.key_to_record(rkey), "header": copy.deepcopy(rec), "kid": None}
                if alg.startswith("PBES2"):
                    recd["p2c"], recd["p2s"] = 8, "0011223344556677"
                plan = {"ser": c["ser"], "enc": "A128GCM", "zip": None, "plaintext_hex": payload.hex(), "aad_hex": None, "protected": copy.deepcopy(prot),
                        "unprotected": copy.deepcopy(unprot), "recipients": [recd], "sender": None, "place": "protected"}
                # the reference needs the real alg/enc to encrypt even when the header under test lacks or mistypes them
                enc_plan = copy.deepcopy(plan)
                enc_plan["protected"]["alg"] = alg
                enc_plan["protected"]["enc"] = "A128GCM"
                for d in (enc_plan["unprotected"], enc_plan["recipients"][0]["header"]):
                    if isinstance(d, dict):
                        d.pop("alg", None) if d.get("alg") != alg else None
                if c.get("second_of_two"):
                    clean = {"alg": alg, "key": gk.key_to_record(rkey), "header": None, "kid": None}
                    if alg.startswith("PBES2"):
                        clean["p2c"], clean["p2s"] = 8, "8899aabbccddeeff"
                    two = copy.deepcopy(enc_plan)
                    two["recipients"] = [clean, copy.deepcopy(enc_plan["recipients"][0])]
                    two["place"] = "recipient"
                    for d in (two["protected"], two["unprotected"]):
                        if isinstance(d, dict):
                            d.pop("alg", None)
                    for r_ in two["recipients"]:
                        r_["header"] = {**(r_["header"] or {}), "alg": alg}
                    tok, _ = jweplan.ref_encrypt(two, c["seed"], ("canonical", 0), additions_in_protected=False)
                    if c["name"] not in (tok["recipients"][1].get("header") or {}):
                        raise HarnessError(f"member {c['name']} not in the second recipient's header: {tok['recipients'][1]!r}")
                    del tok["recipients"][1]["header"][c["name"]]
                    kw = {"registry": jwe.JWERegistry(algorithms=jweplan.ALL_NAMES, verify_all_recipients=c["second_of_two"] == "all")}
                elif enc_plan["protected"] != plan["protected"] or c["rule"] == "alg-specific-missing" or \
                        (c["rule"] == "type" and c["name"] in ("epk", "p2s", "p2c", "iv", "tag", "apu", "apv", "zip")):
                    # cannot be authentic with this header: mint a valid token, then rewrite the header (probes the header gate only)
                    base = copy.deepcopy(enc_plan)
                    for d in (base["protected"], base["unprotected"], base["recipients"][0]["header"]):
                        if isinstance(d, dict) and c.get("name") in d and c["rule"] == "type":
                            del d[c["name"]]
                    if c["rule"] == "type" and c["name"] == "enc":
                        base["protected"]["enc"] = "A128GCM"
                    tok, _ = jweplan.ref_encrypt(base, c["seed"], ("canonical", 0), additions_in_protected=(c["pos"] == "protected"))
                    tok = _rewrite(tok, c, prot)
                else:
                    if c.get("multi"):
                        clean = {"alg": alg, "key": gk.key_to_record(rkey), "header": None, "kid": None}
                        if alg.startswith("PBES2"):
                            clean["p2c"], clean["p2s"] = 8, "8899aabbccddeeff"
                        plan["recipients"] = [clean, recd]
                    tok, _ = jweplan.ref_encrypt(plan, c["seed"], ("canonical", 0), additions_in_protected=(c["pos"] == "protected"))
                if c["ser"] == "compact":
                    jwe.decrypt_compact(tok, key, **kw)
                else:
                    jwe.decrypt_json(tok, key, **kw)
        status = "ok"
    except HarnessError:
        raise
    except Exception as e:
        status = "err"
        err = e
    if exp == "dont_care":
        return {"_dont_care": 1}
    where = f"{kind}:{c['dir']}:{c['ser']}{':7797' if c['rfc7797'] else ''}{':template' if c.get('template') else ''}"
    desc = f"{c['rule']} {c.get('name')}={c.get('value')!r} in {c['pos']} header; protected={prot!r} unprotected={unprot!r} recipient={rec!r}"
    if exp == "reject" and status == "ok":
        return {f"C15:invalid-header-accepted:{c['rule']}:{c.get('name') if c['rule'] in ('type', 'missing', 'alg-specific-missing') else ''}:{where}":
                f"{where}: header violating '{c['rule']}' was accepted ({desc})", "_exp": exp}
    if exp == "accept" and status == "err":
        return {f"C15:valid-header-refused:{c['rule']}:{where}:{exc_key(err)}": f"{where}: {desc} must be accepted but raised {type(err).__name__}: {err}", "_exp": exp}
    return {"_exp": exp}


def _rewrite(tok, c, prot):
    """Apply the violation to an already minted JWE (header gate probe)."""
    name = c.get("name")
    if isinstance(tok, str):
        segs = tok.split(".")
        h = json.loads(rb.decode(segs[0]))
        if c["rule"] == "type":
            h[name] = c["value"]
        else:
            h.pop(name, None)
        segs[0] = rb.encode(json.dumps(h).encode())
        return ".".join(segs)
    t = copy.deepcopy(tok)
    entries = t.get("recipients") or [t]
    if c["rule"] != "type":
        # remove the member wherever it stands
        h = json.loads(rb.decode(t["protected"]))
        if name in h:
            del h[name]
            t["protected"] = rb.encode(json.dumps(h).encode())
        for cont, key in [(t, "unprotected")] + [(e, "header") for e in entries]:
            if isinstance(cont.get(key), dict):
                cont[key].pop(name, None)
        return t
    if c["pos"] == "protected":
        h = json.loads(rb.decode(t["protected"]))
        h[name] = c["value"]
        t["protected"] = rb.encode(json.dumps(h).encode())
    elif c["pos"] == "unprotected":
        t.setdefault("unprotected", {})[name] = c["value"]
    else:
        entries[0].setdefault("header", {})[name] = c["value"]
    # the member must not also stand (validly) elsewhere
    for cont, key in [(t, "unprotected")] + [(e, "header") for e in entries]:
        if isinstance(cont.get(key), dict) and name in cont[key] and not ((key == "unprotected") == (c["pos"] == "unprotected") and (key == "header") == (c["pos"] == "recipient")):
            del cont[key][name]
    if c["pos"] != "protected":
        h = json.loads(rb.decode(t["protected"]))
        if name in h:
            del h[name]
            t["protected"] = rb.encode(json.dumps(h).encode())
    return t


def shards(tier):
    return [(f"h{i:02d}", {"i": i}) for i in range(16)]


def run_shard(ctx, spec):
    from gens.jose import setup_joserfc
    setup_joserfc()
    selftest.run()
    K()

    def body(c):
        f = in_child(lambda: run_case(c))        # pristine process state per case: a recorded case is self-contained
        if "_skip" in f:
            return
        if "_dont_care" in f:
            ctx.dontcare(c["rule"])
            return
        exp = f.pop("_exp", "?")
        ctx.case((c["rule"], c.get("name"), c.get("jtype"), c.get("ctype"), c["pos"], c["dir"], c["kind"], c["ser"], c["rfc7797"], c["alg"], c.get("multi")),
                 cls=[f"rule:{c['rule']}", f"dir:{c['dir']}", f"kind:{c['kind']}", f"pos:{c['pos']}", "must-accept" if exp == "accept" else "must-reject"] +
                 ([f"second-recipient:{c['multi']}"] if c.get("multi") else []),
                 sample=c)
        for k, w in f.items():
            ctx.finding(k, w, c)
    drive(ctx, "hdr", cases(), body, 1800 if ctx.tier == "quick" else 30000)


def replay(rec) -> dict:
    from gens.jose import setup_joserfc
    setup_joserfc()
    K()
    f = run_case(rec)
    return {k: v for k, v in f.items() if not k.startswith("_")}
