"""C16 - untrusted tokens are rejected only with JoseError or ValueError.

Generators: G1 raw bytes/text, G2 grammar-built compact tokens (header = arbitrary JSON value or header-like
object with arbitrary member types), G3 valid tokens with one header member / segment replaced, G4 authenticated
but malformed inner data minted by the reference (corrupt DEFLATE, non-JSON / deeply nested claims), G5 JSON
serialization dicts of the documented shape with arbitrary member contents, G6 deep nesting.
Oracle: the call returns or raises an exception derived from JoseError or ValueError; anything else is a finding
keyed C16:<ExceptionType>@<innermost joserfc function>.
"""
from __future__ import annotations
import copy
import json
import warnings

from hypothesis import strategies as st

from harness.hyp import drive
from gens import jsonv, keys as gk, jwsplan, jweplan
from gens.jose import jkey, ALL_JWS, exc_key
from ref import b64 as rb, jws as rjws, jwe as rjwe, keys as rk

LEVEL = "exploration"
RULE = ("inputs: G1 raw byte/text strings; G2 grammar: 2-6 dot-separated segments, first = base64url of a JSON value (any type) or of "
        "a header-like object whose members (alg, enc, zip, crit, b64, epk, apu, apv, p2s, p2c, iv, tag, kid, jwk, ...) take values of "
        "every JSON type, alg/enc/zip mostly real names; G3 valid joserfc tokens with one header member retyped or one segment replaced; "
        "G4 reference-minted authenticated tokens with hostile inner data (corrupt/truncated/zlib-/gzip-framed DEFLATE incl. corrupt zlib-framed streams, non-JSON and "
        "non-object claims; CBC ciphertexts that are empty, not a multiple of the block size or badly padded under a correct HMAC tag); G5 JWS/JWE JSON-serialization dicts with the emitted members present with their declared Python types and "
        "arbitrary contents; G6 nesting depth 10^3-10^5. Each input goes to deserialize_compact/json, rfc7797.*, decrypt_compact/json, "
        "jwt.decode with fixed well-formed keys (matching key type, other key, key set) and registries (default, all algorithms, "
        "non-strict, any-recipient). non-trivial: the input passes segment splitting and header decoding (reaches header processing); "
        "distinct = (entry, generator, header shape digest).")
ASSUMPTIONS = ["p2c values between 5001 and 2^63 are not generated (CPU-time attack, not an exception-type question)",
               "keys and registries are well-formed; only the token is hostile"]
BUDGET_S = {"quick": 85, "thorough": 1500}
FLOORS = {"quick": {"gen:G2": 3000, "gen:G3": 1500, "gen:G3J": 1500, "gen:G4": 300, "gen:G5": 1500, "reached-header-processing": 4000},
          "thorough": {"gen:G2": 30000}}
OK_TYPES = None


def _ok_types():
    global OK_TYPES
    if OK_TYPES is None:
        from joserfc.errors import JoseError
        OK_TYPES = (JoseError, ValueError)
    return OK_TYPES


# ------------------------------------------------------------------ fixed keys
_KEYS = None


def fixed_keys():
    global _KEYS
    if _KEYS is None:
        from joserfc.jwk import KeySet
        ref = {
            "oct16": {"kty": "oct", "k": bytes(range(16))}, "oct24": {"kty": "oct", "k": bytes(range(24))},
            "oct32": {"kty": "oct", "k": bytes(range(32))}, "oct64": {"kty": "oct", "k": bytes(range(64))},
            "RSA": {k: v for k, v in gk.rsa_pool()[2].items() if k != "bits"},
            "P-256": gk.ec_from_d("P-256", 1234567), "P-256b": gk.ec_from_d("P-256", 7654321), "P-384": gk.ec_from_d("P-384", 1234567), "P-521": gk.ec_from_d("P-521", 1234567),
            "secp256k1": gk.ec_from_d("secp256k1", 1234567),
            "Ed25519": gk.okp_from_seed("Ed25519", bytes(range(32))), "Ed448": gk.okp_from_seed("Ed448", bytes(range(57))),
            "X25519": gk.okp_from_seed("X25519", bytes(range(32))), "X448": gk.okp_from_seed("X448", bytes(range(56))),
        }
        objs = {n: jkey(k, "dict", True, {"kid": n}) for n, k in ref.items()}
        _KEYS = {"ref": ref, "obj": objs, "set": KeySet(list(objs.values()))}
    return _KEYS


def key_for_header(hdr, choice: int):
    """Pick a key: the matching type for the named alg (so processing goes deep), another key, or the key set."""
    K = fixed_keys()
    alg = hdr.get("alg") if isinstance(hdr, dict) else None
    names = sorted(K["obj"])
    if choice % 4 == 3:
        return K["set"]
    if choice % 4 == 2 or not isinstance(alg, str):
        return K["obj"][names[choice // 4 % len(names)]]
    if alg.startswith(("HS", "A1", "A2", "dir", "PBES2", "none")):
        size = {"A128KW": 16, "A192KW": 24, "A256KW": 32, "A128GCMKW": 16, "A192GCMKW": 24, "A256GCMKW": 32}.get(alg)
        if alg == "dir":
            enc = hdr.get("enc")
            size = rjwe.ENCS.get(enc, (32,))[0] if isinstance(enc, str) else 32
        return K["obj"].get(f"oct{size}", K["obj"]["oct32"])
    if alg.startswith(("RS", "PS")):
        return K["obj"]["RSA"]
    if alg.startswith("ES"):
        return K["obj"][{"ES256": "P-256", "ES384": "P-384", "ES512": "P-521", "ES256K": "secp256k1"}.get(alg, "P-256")]
    if alg == "EdDSA":
        return K["obj"]["Ed25519" if choice % 8 < 4 else "Ed448"]
    if alg.startswith("ECDH"):
        crv = None
        epk = hdr.get("epk")
        if isinstance(epk, dict) and isinstance(epk.get("crv"), str) and epk["crv"] in K["obj"]:
            crv = epk["crv"]
        return K["obj"][crv or ["P-256", "X25519", "P-384", "X448", "P-521", "secp256k1"][choice // 4 % 6]]
    return K["obj"][names[choice // 4 % len(names)]]


# ------------------------------------------------------------------ strategies
jws_alg = st.sampled_from(jsonv.JWS_ALGS)
jwe_alg = st.sampled_from(jsonv.JWE_ALGS)
jwe_enc = st.sampled_from(jsonv.JWE_ENCS)
anyv = jsonv.typed_values()
b64ish = st.one_of(st.binary(max_size=40).map(rb.encode), st.text(alphabet=rb.ALPHABET + "=.+/ é", max_size=20), st.just(""))
epk_like = st.one_of(
    anyv,
    st.fixed_dictionaries({}, optional={
        "kty": st.one_of(st.sampled_from(["EC", "OKP", "RSA", "oct", "ec"]), anyv),
        "crv": st.one_of(st.sampled_from(jsonv.CURVES + ["P-255", "x25519"]), anyv),
        "x": st.one_of(b64ish, anyv), "y": st.one_of(b64ish, anyv), "d": b64ish}),
    # a valid public key with optional JWK members of arbitrary type (use, key_ops, alg, kid, x5c ...)
    st.tuples(st.sampled_from(["P-256", "P-384", "P-521", "secp256k1", "X25519", "X448"]),
              st.dictionaries(st.sampled_from(["use", "key_ops", "alg", "kid", "x5c", "x5u", "x5t", "oth", "k", "n"]),
                              st.one_of(anyv, st.lists(st.one_of(anyv, st.sampled_from(["sign", "deriveKey", "deriveBits"])), max_size=3)), min_size=1, max_size=3)).map(
        lambda t: {**rk.export_jwk(fixed_keys()["ref"][t[0]], private=False), **t[1]}),
    st.sampled_from(["P-256", "P-384", "P-521", "secp256k1", "X25519", "X448", "Ed25519"]).map(
        lambda c: rk.export_jwk(fixed_keys()["ref"][c], private=False)),
)
valid_epk = st.sampled_from(["P-256", "P-384", "P-521", "secp256k1", "X25519", "X448"]).map(
    lambda c: rk.export_jwk(fixed_keys()["ref"][c], private=False))
hostile_member = st.sampled_from([[["deriveKey"]], [{}], {"a": 1}, [1], 5, None, "", ["sign", ["x"]], [None], True, 1.5, "sig", ["deriveKey"], [[]]])
valid_epk_plus = st.tuples(valid_epk, st.sampled_from(["use", "key_ops", "alg", "kid", "x5c", "x5u", "x5t", "x5t#S256", "oth", "d", "crv", "kty"]), hostile_member).map(
    lambda t: {**t[0], t[1]: t[2]})
# use and key_ops together (they are cross-checked against each other), either of them hostile
valid_epk_pair = st.tuples(valid_epk, st.one_of(hostile_member, st.sampled_from(["enc", "sig", "signature", "ENC"])),
                           st.one_of(hostile_member, st.sampled_from([["deriveKey"], ["deriveBits", "deriveKey"], ["sign"], []]))).map(
    lambda t: {**t[0], "use": t[1], "key_ops": t[2]})
valid_epk_plus = st.one_of(valid_epk_plus, valid_epk_plus, valid_epk_pair)
p2c_like = st.one_of(st.integers(-2**70, 5000), st.integers(2**63, 2**66), anyv)

member_value = {
    "alg": st.one_of(jws_alg, jwe_alg, anyv), "enc": st.one_of(jwe_enc, anyv), "zip": st.one_of(st.just("DEF"), anyv),
    "crit": st.one_of(st.lists(st.sampled_from(jsonv.HEADER_NAMES), max_size=3), st.lists(anyv, max_size=3), anyv),
    "b64": st.one_of(st.booleans(), anyv), "epk": st.one_of(epk_like, valid_epk_plus), "apu": st.one_of(b64ish, anyv), "apv": st.one_of(b64ish, anyv),
    "p2s": st.one_of(b64ish, anyv), "p2c": p2c_like, "iv": st.one_of(b64ish, anyv), "tag": st.one_of(b64ish, anyv),
    "kid": st.one_of(st.sampled_from(["oct32", "RSA", "P-256", "X25519", "nope"]), anyv), "skid": st.one_of(st.sampled_from(["oct32", "RSA", "P-256", "X25519", "Ed25519", "P-384", "nope"]), st.text(max_size=5), anyv),
    "jwk": st.one_of(epk_like, valid_epk_plus), "jku": st.one_of(st.just("https://a/b"), anyv), "x5c": st.one_of(st.lists(st.text(max_size=4), max_size=2), anyv),
    "typ": anyv, "cty": anyv, "x5u": anyv, "x5t": anyv, "x5t#S256": anyv,
}


@st.composite
def header_like(draw, kind):
    names = draw(st.lists(st.sampled_from(sorted(member_value)), unique=True, max_size=5))
    h = {}
    if kind == "jws":
        h["alg"] = draw(st.one_of(jws_alg, jws_alg, jws_alg, member_value["alg"]))
    else:
        h["alg"] = draw(st.one_of(jwe_alg, jwe_alg, jwe_alg, member_value["alg"]))
        h["enc"] = draw(st.one_of(jwe_enc, jwe_enc, jwe_enc, member_value["enc"]))
    for n in names:
        h[n] = draw(member_value[n])
    a = h.get("alg")
    if isinstance(a, str) and kind == "jwe":
        # supply plausible algorithm-specific members so processing goes past the "required" checks
        if a.startswith("ECDH") and "epk" not in h and draw(st.integers(0, 3)):
            h["epk"] = draw(st.one_of(epk_like, valid_epk, valid_epk_plus))
        if a.startswith("PBES2") and draw(st.booleans()):
            h.setdefault("p2s", draw(member_value["p2s"]))
            h.setdefault("p2c", draw(p2c_like))
        if a.endswith("GCMKW") and draw(st.booleans()):
            h.setdefault("iv", draw(member_value["iv"]))
            h.setdefault("tag", draw(member_value["tag"]))
    if draw(st.integers(0, 9)) == 0:
        for n in draw(st.lists(st.sampled_from(["alg", "enc"]), max_size=1)):
            h.pop(n, None)
    if draw(st.integers(0, 9)) == 0:
        h[draw(jsonv.text)] = draw(anyv)
    return _tame(h)


def _tame(v):
    """Keep generated p2c out of the CPU-burning range."""
    if isinstance(v, dict):
        out = {}
        for k, x in v.items():
            if k == "p2c" and isinstance(x, int) and not isinstance(x, bool) and 5000 < x < 2**63:
                x = x % 5000
            out[k] = _tame(x)
        return out
    if isinstance(v, list):
        return [_tame(x) for x in v]
    return v


def seg_json(v) -> str:
    return rb.encode(json.dumps(v, separators=(",", ":")).encode("utf-8", "surrogatepass"))


seg_any = st.one_of(b64ish, st.binary(max_size=64).map(rb.encode), st.just(""))


@st.composite
def g2_compact(draw):
    kind = draw(st.sampled_from(["jws", "jwe"]))
    first = draw(st.one_of(header_like(kind), header_like(kind), header_like(kind), jsonv.json_value(6).map(_tame)))
    n = draw(st.sampled_from([3, 3, 3, 5, 5, 5, 2, 4, 6])) if True else 3
    if kind == "jws" and n == 5 and draw(st.booleans()):
        n = 3
    if kind == "jwe" and n == 3 and draw(st.booleans()):
        n = 5
    segs = [seg_json(first)] + [draw(seg_any) for _ in range(n - 1)]
    if kind == "jwe" and n == 5 and isinstance(first, dict) and draw(st.booleans()):
        enc = first.get("enc")
        if isinstance(enc, str) and enc in rjwe.ENCS:
            segs[2] = rb.encode(bytes(rjwe.ENCS[enc][1]))
            segs[4] = rb.encode(bytes(16 if "CBC" not in enc else rjwe.ENCS[enc][0] // 2))
    return {"gen": "G2", "kind": kind, "token": ".".join(segs), "header": first if isinstance(first, dict) else None}


# ---- G3 valid tokens with one edit
def _valid_tokens():
    """A small deterministic pool of valid tokens made with joserfc itself and the fixed keys."""
    from joserfc import jws, jwe
    K = fixed_keys()["obj"]
    out = []
    with warnings.catch_warnings():
        warnings.simplefilter("ignore")
        for alg, kn in [("HS256", "oct32"), ("RS256", "RSA"), ("ES256", "P-256"), ("EdDSA", "Ed25519"), ("PS384", "RSA"), ("ES512", "P-521")]:
            out.append(("jws", jws.serialize_compact({"alg": alg, "kid": kn}, b'{"a":1}', K[kn], algorithms=ALL_JWS)))
        for alg, enc, kn, extra in [("dir", "A128GCM", "oct16", {}), ("A128KW", "A128CBC-HS256", "oct16", {}), ("RSA-OAEP", "A256GCM", "RSA", {}),
                                    ("ECDH-ES", "A128GCM", "P-256", {}), ("ECDH-ES+A128KW", "A128GCM", "X25519", {}),
                                    ("A128GCMKW", "A128GCM", "oct16", {}), ("PBES2-HS256+A128KW", "A128GCM", "oct32", {"p2c": 10}),
                                    ("dir", "A128GCM", "oct16", {"zip": "DEF"}), ("ECDH-ES", "XC20P", "X448", {})]:
            out.append(("jwe", jwe.encrypt_compact({"alg": alg, "enc": enc, **extra}, b'{"a":1}', K[kn], algorithms=jweplan.ALL_NAMES)))
        # RFC 7797 unencoded payloads: the compact path of joserfc.rfc7797 has its own verification code
        from joserfc import rfc7797
        for alg, kn in [("HS256", "oct32"), ("ES256", "P-256"), ("RS256", "RSA"), ("EdDSA", "Ed448")]:
            out.append(("jws", rfc7797.serialize_compact({"alg": alg, "kid": kn, "b64": False, "crit": ["b64"]}, "a1-b_c~", K[kn], algorithms=ALL_JWS)))
        # ECDH-1PU: the sender key is named by skid and may be looked up in a key set
        out.append(("jwe", jwe.encrypt_compact({"alg": "ECDH-1PU", "enc": "A128GCM", "skid": "P-256b"}, b'{"a":1}', K["P-256"], algorithms=jweplan.ALL_NAMES, sender_key=K["P-256b"])))
        out.append(("jwe", jwe.encrypt_compact({"alg": "ECDH-1PU+A128KW", "enc": "A128CBC-HS256", "skid": "P-256b"}, b'{"a":1}', K["P-256"], algorithms=jweplan.ALL_NAMES,
                                               sender_key=K["P-256b"])))
    return out


_TOKENS = None


def valid_tokens():
    global _TOKENS
    if _TOKENS is None:
        from gens.jose import setup_joserfc
        setup_joserfc()
        _TOKENS = _valid_tokens()
    return _TOKENS


@st.composite
def g3_mutated(draw):
    idx = draw(st.integers(0, 20))
    edit = draw(st.sampled_from(["set", "set", "set", "alg-swap", "alg-swap", "segment", "drop", "header-nonobject", "nested-set", "nested-set", "skid-set"]))
    name = draw(st.sampled_from(sorted(member_value) + ["alg", "enc", "alg", "epk", "zip", "p2c", "crit"]))
    value = draw(st.one_of(member_value[name], member_value[name], anyv))
    if edit == "alg-swap":
        name, value = draw(st.sampled_from(["alg", "alg", "enc"])), None
        value = draw(jwe_enc) if name == "enc" else draw(st.one_of(jwe_alg, jws_alg, st.integers(0, 50), st.integers(0, 50)))
    seg_i = draw(st.integers(0, 4))
    seg_v = draw(seg_any)
    out = {"gen": "G3", "idx": idx, "edit": edit, "name": name, "value": _tame(value), "seg_i": seg_i, "seg_v": seg_v}
    if edit == "skid-set":
        # an ECDH-1PU token whose skid names another entry of the sender key set
        out["idx"] = draw(st.sampled_from([19, 20]))
        out["edit"], out["name"] = "set", "skid"
        out["value"] = draw(st.sampled_from(["RSA", "oct32", "oct16", "Ed25519", "X25519", "P-384", "P-256", "P-256b", "nope", 5, None, ["P-256b"]]))
    if edit == "nested-set":
        # a member of an embedded key (epk) gets a hostile value; tokens that carry an epk are preferred
        out["idx"] = draw(st.sampled_from([9, 10, 14, 9, 10, 14, idx]))
        out["sub"] = draw(st.sampled_from(["use", "key_ops", "alg", "kid", "x5c", "x5u", "x5t", "crv", "kty", "x", "y", "d", "oth"]))
        out["value"] = _tame(draw(st.one_of(hostile_member, hostile_member, anyv)))
        if out["sub"] in ("use", "key_ops") and draw(st.booleans()):
            # the two are cross-checked against each other: the sibling is there as well (well-formed or hostile)
            out["sub2"] = "key_ops" if out["sub"] == "use" else "use"
            out["value2"] = _tame(draw(st.one_of(st.sampled_from([["deriveKey"], ["deriveBits"], []] if out["sub"] == "use" else ["enc", "sig"]), hostile_member)))
    return out


def build_g3(c):
    toks = valid_tokens()
    kind, tok = toks[c["idx"] % len(toks)]
    segs = tok.split(".")
    hdr = json.loads(rb.decode(segs[0]))
    e = c["edit"]
    if e == "alg-swap" and isinstance(c["value"], int):
        # another algorithm that takes the same key type, so that processing goes as deep as possible
        a = hdr.get("alg", "")
        fam = ([x for x in jsonv.JWE_ALGS if x.startswith("ECDH")] if a.startswith("ECDH") else
               [x for x in jsonv.JWE_ALGS if x.startswith(("A1", "A2", "dir", "PBES2"))] if kind == "jwe" and not a.startswith("RSA") else
               ["RSA1_5", "RSA-OAEP", "RSA-OAEP-256"] if kind == "jwe" else
               ["RS256", "RS384", "RS512", "PS256", "PS384", "PS512"] if a[:2] in ("RS", "PS") else
               ["HS256", "HS384", "HS512", "none"] if a.startswith("HS") else ["ES256", "ES384", "ES512", "ES256K", "EdDSA"])
        hdr["alg"] = fam[c["value"] % len(fam)]
    elif e in ("set", "member", "add", "alg-swap"):
        hdr[c["name"]] = c["value"]
    elif e == "drop":
        names = sorted(hdr)
        del hdr[names[c["seg_i"] % len(names)]]
    elif e == "header-nonobject":
        hdr = c["value"]
    elif e == "nested-set":
        holders = [n for n, v in hdr.items() if isinstance(v, dict)]
        if holders:
            hdr[holders[c["seg_i"] % len(holders)]][c["sub"]] = c["value"]
            if "sub2" in c:
                hdr[holders[c["seg_i"] % len(holders)]][c["sub2"]] = c["value2"]
        else:
            hdr["jwk"] = {"kty": "oct", "k": "AAAA", c["sub"]: c["value"]}
    if e == "segment":
        segs[c["seg_i"] % len(segs)] = c["seg_v"]
    else:
        segs[0] = seg_json(hdr)
    return kind, ".".join(segs), hdr if isinstance(hdr, dict) else None


# ---- G3J valid JSON-serialization tokens with one edit
def _valid_json_tokens():
    from joserfc import jws, jwe
    K = fixed_keys()["obj"]
    out = []
    with warnings.catch_warnings():
        warnings.simplefilter("ignore")
        out.append(("jws-flattened", jws.serialize_json({"protected": {"alg": "HS256"}, "header": {"kid": "oct32"}}, b"hi", K["oct32"])))
        out.append(("jws-general", jws.serialize_json([{"protected": {"alg": "HS256", "kid": "oct32"}}, {"protected": {"alg": "ES256"}, "header": {"kid": "P-256"}}],
                                                      b"hi", fixed_keys()["set"], algorithms=ALL_JWS)))
        for alg, enc, kn, hdr in [("A128KW", "A128GCM", "oct16", {}), ("ECDH-ES+A128KW", "A128CBC-HS256", "P-256", {}), ("dir", "A128GCM", "oct16", {}),
                                  ("PBES2-HS256+A128KW", "A128GCM", "oct32", {"p2c": 10}), ("A128GCMKW", "A128GCM", "oct16", {}),
                                  ("RSA-OAEP", "A128GCM", "RSA", {}), ("ECDH-ES", "A128GCM", "X25519", {})]:
            for cls, kind in ((jwe.FlattenedJSONEncryption, "jwe-flattened"), (jwe.GeneralJSONEncryption, "jwe-general")):
                o = cls({"enc": enc}, b"hi", {"cty": "x"}, b"aad")
                o.add_recipient({"alg": alg, "kid": kn, **hdr}, K[kn])
                if kind == "jwe-general" and alg not in ("dir", "ECDH-ES"):
                    o.add_recipient({"alg": "A256KW", "kid": "oct32"}, K["oct32"])
                out.append((kind, jwe.encrypt_json(o, None, algorithms=jweplan.ALL_NAMES)))
    return out


_JTOKENS = None


def valid_json_tokens():
    global _JTOKENS
    if _JTOKENS is None:
        from gens.jose import setup_joserfc
        setup_joserfc()
        _JTOKENS = _valid_json_tokens()
    return _JTOKENS


@st.composite
def g3_json(draw):
    name = draw(st.sampled_from(sorted(member_value) + ["alg", "enc", "epk", "zip", "p2c", "crit", "iv", "tag"]))
    return {"gen": "G3J", "idx": draw(st.integers(0, 15)), "edit": draw(st.sampled_from(["hdr-set", "hdr-set", "hdr-drop", "drop-optional", "str-replace", "protected-nonobject", "entries-empty", "entries-dup", "entries-drop-first"])),
            "name": name, "value": _tame(draw(st.one_of(member_value[name], member_value[name], anyv))), "where": draw(st.integers(0, 5)),
            "str": draw(str_any), "nonobj": _tame(draw(jsonv.json_value(4)))}


def build_g3j(c):
    toks = valid_json_tokens()
    kind, tok = toks[c["idx"] % len(toks)]
    t = copy.deepcopy(tok)
    entries = t.get("signatures") or t.get("recipients") or [t]
    ent = entries[c["where"] % len(entries)]
    e = c["edit"]
    hdr_holders = []  # (container, key, is_protected)
    for x in ([t] + entries):
        if "protected" in x:
            hdr_holders.append((x, "protected", True))
        for k in ("header", "unprotected"):
            if isinstance(x.get(k), dict):
                hdr_holders.append((x, k, False))
    if e in ("hdr-set", "hdr-drop") and hdr_holders:
        cont, key, prot = hdr_holders[c["where"] % len(hdr_holders)]
        h = json.loads(rb.decode(cont[key])) if prot else cont[key]
        if e == "hdr-set":
            h[c["name"]] = c["value"]
        elif h:
            names = sorted(h)
            del h[names[c["where"] % len(names)]]
        cont[key] = seg_json(h) if prot else h
    elif e == "drop-optional":
        opts = [k for k in ("encrypted_key", "header", "aad", "unprotected") if k in ent or k in t]
        if "protected" in ent and kind.startswith("jws"):
            opts.append("protected")
        if opts:
            k = opts[c["where"] % len(opts)]
            (ent if k in ent else t).pop(k, None)
    elif e == "str-replace":
        strs = [(x, k) for x in ([t] + entries) for k, v in x.items() if isinstance(v, str)]
        x, k = strs[c["where"] % len(strs)]
        x[k] = c["str"]
    elif e.startswith("entries-"):
        # the list of signatures / recipients itself: emptied, an entry repeated, the first entry gone (everything else stays valid)
        lk = "signatures" if "signatures" in t else "recipients" if "recipients" in t else None
        if lk:
            t[lk] = [] if e == "entries-empty" else (t[lk] + [copy.deepcopy(t[lk][c["where"] % len(t[lk])])]) if e == "entries-dup" else t[lk][1:]
    elif e == "protected-nonobject":
        for x in ([t] + entries):
            if "protected" in x:
                x["protected"] = seg_json(c["nonobj"])
                break
    hdr = None
    for cont, key, prot in hdr_holders:
        try:
            h = json.loads(rb.decode(cont[key])) if prot else cont[key]
            if isinstance(h, dict) and "alg" in h:
                hdr = h
        except Exception:
            pass
    return kind, t, hdr


# ---- G4 authenticated but malformed
@st.composite
def g4_auth(draw):
    what = draw(st.sampled_from(["zip-garbage", "zip-truncated", "zip-zlib", "zip-gzip", "zip-empty", "zip-trailing", "claims",
                                 "zip-zlib-garbage", "zip-zlib-badsum", "zip-zlib-flip", "zip-zlib-truncated",
                                 "cbc-empty", "cbc-partial-block", "cbc-bad-padding", "cbc-zero-padding", "cbc-all-padding",
                                 "zip-protected-nonstring"]))
    data = draw(st.binary(max_size=60))
    claims = draw(st.one_of(st.binary(max_size=30), jsonv.json_value(6).map(lambda v: json.dumps(v).encode()),
                            st.sampled_from([b"[1,2]", b'"s"', b"1", b"null", b"true", b"{", b"\xff\xfe", b"", b"NaN", b"[" * 3000 + b"]" * 3000])))
    transport = draw(st.sampled_from(["jws", "jwe"]))
    return {"gen": "G4", "what": what, "data_hex": data.hex(), "claims_hex": claims.hex(), "transport": transport}


def build_g4(c):
    import zlib
    K = fixed_keys()["ref"]
    data = bytes.fromhex(c["data_hex"])
    if c["what"].startswith("cbc-"):
        # a ciphertext no honest sender makes, under a tag the holder of the key did compute (RFC 7518 5.2.2.2: the tag is
        # checked first, the padding afterwards)
        from Crypto.Cipher import AES
        enc = ["A128CBC-HS256", "A256CBC-HS512"][len(data) % 2]
        size = rjwe.ENCS[enc][0]
        cek = K[f"oct{size}"]["k"]
        half = size // 2
        blocks = {"cbc-empty": b"", "cbc-partial-block": None, "cbc-bad-padding": (data + bytes(16))[:15] + bytes([17 + len(data) % 200]),
                  "cbc-zero-padding": (data + bytes(16))[:15] + b"\x00", "cbc-all-padding": bytes([16]) * 15 + bytes([16 if len(data) % 2 else 15])}[c["what"]]
        iv = bytes(16)
        ct = (data + b"x")[:1 + len(data) % 15] if blocks is None else (AES.new(cek[half:], AES.MODE_CBC, iv).encrypt(blocks) if blocks else b"")
        prot = {"alg": "dir", "enc": enc}
        pseg = rb.encode(json.dumps(prot, separators=(",", ":")).encode())
        tag = rjwe._cbc_tag(enc, cek[:half], pseg.encode(), iv, ct)
        return "jwe", ".".join([pseg, "", rb.encode(iv), rb.encode(ct), rb.encode(tag)]), prot
    if c["what"] == "zip-protected-nonstring":
        # an authenticated JSON token whose protected "zip" is not a string while an unprotected part carries a well-formed one: the
        # type test that looks at the merged header is satisfied, the protected value is what the decompression step reads
        bad = [["DEF"], {}, {"DEF": 1}, 5, None, True, [], 1.5][len(data) % 8]
        prot = {"alg": "dir", "enc": "A128GCM", "zip": bad}
        pseg = rb.encode(json.dumps(prot, separators=(",", ":")).encode())
        ct, tag = rjwe.content_encrypt("A128GCM", K["oct16"]["k"], bytes(12), pseg.encode(), rjwe.deflate(b"hello " + data))
        tok = {"protected": pseg, "iv": rb.encode(bytes(12)), "ciphertext": rb.encode(ct), "tag": rb.encode(tag)}
        if len(data) % 2:
            tok["unprotected"] = {"zip": "DEF"}
        else:
            tok["header"] = {"zip": "DEF"}
        if len(data) % 3 == 0:
            tok = {k2: v for k2, v in tok.items() if k2 != "header"}
            tok["recipients"] = [{"header": {"zip": "DEF"}}]
            return "jwe-general", tok, prot
        return "jwe-flattened", tok, prot
    if c["what"] == "claims":
        payload = bytes.fromhex(c["claims_hex"])
        if c["transport"] == "jws":
            tok = rjws.make_compact(b'{"alg":"HS256","typ":"JWT"}', payload, "HS256", K["oct32"])
            return "jwt-jws", tok, {"alg": "HS256"}
        raw = None
    else:
        payload = b"hello"
        good = rjwe.deflate(b"A" * 100 + data)
        zgood = zlib.compress(b"A" * 100 + data)
        flip_at = 2 + (len(data) * 7) % (len(zgood) - 2)
        raw = {"zip-zlib-garbage": b"\x78\x9c" + data, "zip-zlib-badsum": zgood[:-1] + bytes([zgood[-1] ^ 1]),
               "zip-zlib-flip": zgood[:flip_at] + bytes([zgood[flip_at] ^ (1 + len(data) % 255)]) + zgood[flip_at + 1:],
               "zip-zlib-truncated": zgood[: max(2, len(zgood) // 2)],
               "zip-garbage": data, "zip-truncated": good[: max(1, len(good) // 2)], "zip-zlib": zlib.compress(data),
               "zip-gzip": b"\x1f\x8b\x08\x00" + data, "zip-empty": b"", "zip-trailing": good + data}[c["what"]]
    prot = {"alg": "dir", "enc": "A128GCM"}
    if raw is not None:
        prot["zip"] = "DEF"
    ptext = json.dumps(prot, separators=(",", ":")).encode()
    pseg = rb.encode(ptext)
    ct, tag = rjwe.content_encrypt("A128GCM", K["oct16"]["k"], bytes(12), pseg.encode(), raw if raw is not None else payload)
    tok = ".".join([pseg, "", rb.encode(bytes(12)), rb.encode(ct), rb.encode(tag)])
    return ("jwt-jwe" if c["what"] == "claims" else "jwe"), tok, prot


# ---- G5 JSON serialization dicts
str_any = st.one_of(b64ish, st.text(max_size=12), st.binary(max_size=30).map(rb.encode))
hdr_dict = st.one_of(header_like("jws"), header_like("jwe"), st.dictionaries(jsonv.text, anyv, max_size=3).map(_tame))


def prot_str(kind):
    return st.one_of(header_like(kind).map(seg_json), jsonv.json_value(5).map(_tame).map(seg_json), str_any)


@st.composite
def g5_json(draw):
    kind = draw(st.sampled_from(["jws-general", "jws-flattened", "jwe-general", "jwe-flattened"]))
    opt = lambda s: draw(st.booleans()) and s  # noqa
    if kind.startswith("jws"):
        def sig():
            e = {"signature": draw(str_any)}
            if draw(st.booleans()):
                e["protected"] = draw(prot_str("jws"))
            if draw(st.booleans()):
                e["header"] = draw(hdr_dict)
            if "protected" not in e and "header" not in e:
                e["header"] = draw(header_like("jws"))
            return e
        if kind == "jws-general":
            d = {"payload": draw(str_any), "signatures": [sig() for _ in range(draw(st.integers(0, 3)))]}
        else:
            d = {"payload": draw(str_any), **sig()}
    else:
        d = {"protected": draw(prot_str("jwe")), "iv": draw(str_any), "ciphertext": draw(str_any), "tag": draw(str_any)}
        if draw(st.booleans()):
            d["unprotected"] = draw(hdr_dict)
        if draw(st.booleans()):
            d["aad"] = draw(str_any)

        def rec():
            r = {}
            if draw(st.booleans()):
                r["header"] = draw(hdr_dict)
            if draw(st.booleans()):
                r["encrypted_key"] = draw(str_any)
            return r
        if kind == "jwe-general":
            d["recipients"] = [rec() for _ in range(draw(st.integers(0, 3)))]
        else:
            d.update(rec())
    return {"gen": "G5", "kind": kind, "data": d}


# ---- G6 deep nesting
@st.composite
def g6_deep(draw):
    depth = draw(st.sampled_from([1000, 3000, 20000, 100000]))
    shape = draw(st.sampled_from(["[", "{"]))
    where = draw(st.sampled_from(["jws-header", "jwe-header", "jws-claims", "header-member", "json-unprotected"]))
    return {"gen": "G6", "depth": depth, "shape": shape, "where": where}


def build_g6(c):
    n = c["depth"]
    text = ("[" * n + "]" * n) if c["shape"] == "[" else ('{"a":' * n + "1" + "}" * n)
    K = fixed_keys()["ref"]
    if c["where"] == "jws-header":
        return "jws", rb.encode(text.encode()) + ".e30.AAAA", None
    if c["where"] == "jwe-header":
        return "jwe", rb.encode(text.encode()) + ".AAAA.AAAA.AAAA.AAAA", None
    if c["where"] == "header-member":
        return "jws", rb.encode(('{"alg":"HS256","kid":' + text + "}").encode()) + ".e30.AAAA", None
    if c["where"] == "jws-claims":
        return "jwt-jws", rjws.make_compact(b'{"alg":"HS256"}', text.encode(), "HS256", K["oct32"]), {"alg": "HS256"}
    return "jws", rb.encode(b'{"alg":"HS256"}') + ".e30.AAAA", None


case_strategy = st.one_of(
    st.fixed_dictionaries({"gen": st.just("G1"), "raw_hex": st.one_of(st.binary(max_size=80), st.text(alphabet="abc.=-_eyJ0", max_size=60).map(str.encode)).map(bytes.hex)}),
    g2_compact(), g2_compact(), g3_mutated(), g3_mutated(), g3_json(), g3_json(), g4_auth(), g5_json(), g5_json(), g6_deep(),
).flatmap(lambda c: st.fixed_dictionaries({"c": st.just(c), "keychoice": st.integers(0, 63), "reg": st.integers(0, 3)}))


# ------------------------------------------------------------------ execution
def registries(choice: int):
    from joserfc import jws, jwe, rfc7797
    if choice == 0:
        return {}, {}
    if choice == 1:
        return {"algorithms": ALL_JWS}, {"algorithms": jweplan.ALL_NAMES}
    if choice == 2:
        return ({"registry": jws.JWSRegistry(algorithms=ALL_JWS, strict_check_header=False)},
                {"registry": jwe.JWERegistry(algorithms=jweplan.ALL_NAMES, strict_check_header=False)})
    return ({"registry": rfc7797.JWSRegistry(algorithms=ALL_JWS)},
            {"registry": jwe.JWERegistry(algorithms=jweplan.ALL_NAMES, verify_all_recipients=False)})


def calls_for(kind, token, hdr, keychoice, reg):
    """List of (entry name, thunk)."""
    from joserfc import jws, jwe, jwt, rfc7797
    K = fixed_keys()
    key = key_for_header(hdr or {}, keychoice)
    js, je = registries(reg)
    # the sender key (ECDH-1PU): none, one key, or the whole key set (the token's skid then picks the entry)
    sender = [None, K["obj"]["P-256b"], K["set"], K["set"]][(keychoice // 4) % 4]
    out = []
    if kind in ("jws", "raw", "jwt-jws"):
        out += [("jws.deserialize_compact", lambda: jws.deserialize_compact(token, key, **js)),
                ("rfc7797.deserialize_compact", lambda: rfc7797.deserialize_compact(token, key, **({} if reg == 2 else js))),
                ("jwt.decode[jws]", lambda: jwt.decode(token, key, **({k: v for k, v in js.items()})))]
    if kind in ("jwe", "raw", "jwt-jwe"):
        out += [("jwe.decrypt_compact", lambda: jwe.decrypt_compact(token, key, sender_key=sender, **je)),
                ("jwt.decode[jwe]", lambda: jwt.decode(token, key, registry=je.get("registry") or jwe.JWERegistry(algorithms=je.get("algorithms"))))]
    if kind.startswith("jws-") and isinstance(token, dict):
        out += [("jws.deserialize_json", lambda: jws.deserialize_json(copy.deepcopy(token), key, **js)),
                ("rfc7797.deserialize_json", lambda: rfc7797.deserialize_json(copy.deepcopy(token), key, **({} if reg == 2 else js)))]
    if kind.startswith("jwe-") and isinstance(token, dict):
        out += [("jwe.decrypt_json", lambda: jwe.decrypt_json(copy.deepcopy(token), key, sender_key=sender, **je))]
    return out


def build(case):
    c = case["c"]
    g = c["gen"]
    if g == "G1":
        raw = bytes.fromhex(c["raw_hex"])
        return "raw", raw, None
    if g == "G2":
        return c["kind"], c["token"], c["header"]
    if g == "G3":
        return build_g3(c)
    if g == "G3J":
        return build_g3j(c)
    if g == "G4":
        return build_g4(c)
    if g == "G5":
        d = c["data"]
        hdr = None
        for src in ([d.get("header")] + [s.get("header") for s in d.get("signatures", []) if isinstance(s, dict)] +
                    [r.get("header") for r in d.get("recipients", []) if isinstance(r, dict)] + [d.get("unprotected")]):
            if isinstance(src, dict) and "alg" in src:
                hdr = src
                break
        if hdr is None:
            p = d.get("protected") or next((s.get("protected") for s in d.get("signatures", []) if isinstance(s, dict) and "protected" in s), None)
            try:
                hdr = json.loads(rb.decode(p))
                if not isinstance(hdr, dict):
                    hdr = None
            except Exception:
                hdr = None
        return c["kind"], d, hdr
    if g == "G6":
        return build_g6(c)
    raise ValueError(g)


def reaches_header(kind, token) -> bool:
    if isinstance(token, dict):
        return True
    try:
        t = token if isinstance(token, str) else token.decode("ascii")
        parts = t.split(".")
        if len(parts) not in (3, 5):
            return False
        json.loads(rb.decode(parts[0]))
        return True
    except Exception:
        return False


def run_case(case) -> dict:
    kind, token, hdr = build(case)
    f = {}
    with warnings.catch_warnings():
        warnings.simplefilter("ignore")
        for name, thunk in calls_for(kind, token, hdr, case["keychoice"], case["reg"]):
            try:
                thunk()
            except _ok_types():
                pass
            except RecursionError as e:
                f[f"C16:RecursionError@{name.split('[')[0]}"] = f"{name}: RecursionError on deeply nested JSON ({case['c'].get('where', case['c']['gen'])})"
            except (KeyboardInterrupt, SystemExit, MemoryError):
                raise
            except BaseException as e:  # pyo3 PanicException derives from BaseException
                f[f"C16:{exc_key(e)}"] = f"{name} raised {type(e).__name__}: {str(e)[:150]} (input class {case['c']['gen']})"
    return f


def shards(tier):
    out = [(f"r{i:02d}", {"i": i}) for i in range(16)]
    if tier == "thorough":
        out += [(f"ath{i}", {"part": "atheris", "seconds": 600}) for i in range(8)]
    return out


def run_shard(ctx, spec):
    from gens.jose import setup_joserfc
    setup_joserfc()
    if spec.get("part") == "atheris":
        import sys as _sys
        from harness.ath import run_atheris
        run_atheris(ctx, "C16", spec["seconds"], _sys.modules[__name__])
        return
    fixed_keys()
    valid_tokens()
    valid_json_tokens()

    def body(case):
        kind, token, hdr = build(case)
        f = run_case(case)
        g = case["c"]["gen"]
        reach = reaches_header(kind, token)
        shape = tuple(sorted((k, jsonv.json_type(v)) for k, v in hdr.items())) if isinstance(hdr, dict) else None
        ctx.case((g, kind, shape, case["reg"] if reach else None, case["c"].get("what"), case["c"].get("where"), case["c"].get("edit")),
                 nontrivial=reach, cls=[f"gen:{g}", f"kind:{kind}"] + (["reached-header-processing"] if reach else []),
                 sample={"gen": g, "kind": kind, "token": token if not isinstance(token, bytes) else token.hex(), "reg": case["reg"]}
                 if len(str(token)) < 600 else None)
        for k, w in f.items():
            ctx.finding(k, w, case)
    drive(ctx, "robust", case_strategy, body, 4500 if ctx.tier == "quick" else 40000)


def replay(rec) -> dict:
    from gens.jose import setup_joserfc
    setup_joserfc()
    return run_case(rec)
