"""C17 - decompression of JWE plaintext is bounded (256 000 octets), lossless up to the bound, never truncating."""
from __future__ import annotations
import hashlib
import json
import tracemalloc
import zlib

from hypothesis import strategies as st

from harness.core import HarnessError
from harness.hyp import drive
from gens.jose import jkey, exc_key
from gens import jweplan
from ref import jwe as rjwe, b64 as rb, selftest

LEVEL = "exploration"
RULE = ("plaintext length n = 256000 + delta with delta in {-3..+3, 100, 255..260, 1000, ...} (placed by construction), small n, and "
        "multiples up to 64 MiB (quick) / 512 MiB (thorough) after expansion x compressibility class {constant, periodic (period 1-300), "
        "text-like, random, random-then-zeros, zeros-then-random, record-like lines with one repeat length per DEFLATE length code, incompressible blocks repeated at distances up to the 32 KiB window} x enc (8) x serialization (compact, flattened); streams produced by "
        "joserfc (zip=DEF) and by the reference (raw DEFLATE levels 0-9 incl. stored blocks, zlib-framed with the default header, "
        "huge streams built chunk-wise without materialising the plaintext). Oracle: n <= 256000 -> exact plaintext; n > 256000 -> "
        "ExceededSizeError, never data; joserfc's own compressed stream is complete raw DEFLATE; tracemalloc peak during decryption stays "
        "below 4*256000 + 8*len(token) + 2 MiB. non-trivial: |n-256000| <= 1000 or expansion ratio >= 100; distinct = (class, delta "
        "or size bucket, enc, ser, producer, level).")
ASSUMPTIONS = ["truncated (incomplete) foreign DEFLATE streams are DONT_CARE", "peak memory is measured with tracemalloc (Python-level allocations incl. zlib output buffers), not RSS"]
BUDGET_S = {"quick": 85, "thorough": 1500}
FLOORS = {"quick": {"near-limit": 600, "over-limit": 400, "under-limit": 400, "ratio>=100": 300, "producer:joserfc": 300, "producer:ref": 500, "zlib-framed": 60},
          "thorough": {"near-limit": 6000}}
LIMIT = 256000
CLASSES = ["constant", "periodic", "text", "random", "random-then-zeros", "zeros-then-random", "records", "far-repeat"]
# one repeat length per DEFLATE length code 257..285 (RFC 1951 3.2.5): decides HLIT and with it the first octet of a dynamic block
LENGTH_CODE_REPS = [3, 4, 5, 6, 7, 8, 9, 10, 11, 13, 15, 17, 20, 24, 28, 32, 38, 46, 54, 62, 74, 90, 106, 122, 146, 178, 210, 242, 258]


def make_plaintext(cls: str, n: int, seed: int, period: int = 7) -> bytes:
    def rnd(m, tag=b""):
        out = bytearray()
        c = 0
        while len(out) < m:
            out += hashlib.sha512(b"%d/%d/" % (seed, c) + tag).digest()
            c += 1
        return bytes(out[:m])
    if cls == "constant":
        return bytes([seed % 256]) * n
    if cls == "periodic":
        unit = rnd(max(1, period))
        return (unit * (n // len(unit) + 1))[:n]
    if cls == "text":
        words = [b"the", b"quick", b"brown", b"fox", b"jumps", b"over", b"lazy", b"dog", b"{\"claim\":", b"true}", b"\n"]
        r = rnd(n // 3 + 8)
        out = bytearray()
        i = 0
        while len(out) < n:
            out += words[r[i % len(r)] % len(words)] + b" "
            i += 1
        return bytes(out[:n])
    if cls == "random":
        return rnd(n)
    if cls == "far-repeat":
        # an incompressible block repeated at a long distance: back-references span most of the 32 KiB DEFLATE window
        unit = rnd([5000, 9000, 20000, 30000, 32000, 32768][seed % 6])
        return (unit * (n // len(unit) + 1))[:n]
    if cls == "records":
        # log-like lines: a varying id and one of 30 fixed tokens of width `period`; enough lines for several DEFLATE blocks
        w = max(1, period - 2)
        alphabet = b"abcdefghijklmnopqrstuvwxyzABCDEFGHIJKLMNOPQRSTUVWXYZ0123456789-_"
        tokens = [bytes(alphabet[b % 64] for b in rnd(w, b"tok%d" % i)) for i in range(30)]
        r = rnd(5 * (n // (w + 10) + 2), b"ids")
        out = bytearray()
        i = 0
        while len(out) < n:
            out += r[5 * i:5 * i + 4].hex().encode() + b" " + tokens[r[5 * i + 4] % 30] + b"\n"
            i += 1
        return bytes(out[:n])
    if cls == "random-then-zeros":
        k = min(n, 1000 + seed % 3000)
        return rnd(k) + bytes(n - k)
    k = min(n, 1000 + seed % 3000)
    return bytes(n - k) + rnd(k)


deltas = st.sampled_from([-1000, -259, -258, -3, -2, -1, 0, 1, 2, 3, 100, 255, 256, 257, 258, 259, 260, 1000, 5000])
# around the multiples of 64 KiB too (a piecewise inflater has its chunk boundaries there)
sizes_small = st.sampled_from([0, 1, 15, 16, 17, 1000, 65535, 65536, 100000, 65537, 65541, 65600, 131071, 131073, 131172, 196609, 196613])


@st.composite
def cases(draw):
    kind = draw(st.sampled_from(["near", "near", "near", "small", "big"]))
    cls = draw(st.sampled_from(CLASSES))
    if kind == "near":
        n = LIMIT + draw(deltas)
    elif kind == "small":
        n = draw(sizes_small)
    else:
        n = draw(st.sampled_from([LIMIT * 2, LIMIT * 4, 1 << 20, 3 << 20]))
    producer = draw(st.sampled_from(["joserfc", "ref", "ref"]))
    return {"kind": kind, "cls": cls, "n": n, "seed": draw(st.integers(0, 10**6)),
            "period": draw(st.sampled_from(LENGTH_CODE_REPS if cls == "records" else [1, 2, 3, 7, 64, 255, 258, 259, 300])),
            "enc": draw(st.sampled_from(jweplan.ENCS)), "ser": draw(st.sampled_from(["compact", "flattened"])), "producer": producer,
            "level": draw(st.integers(0, 9)), "framing": draw(st.sampled_from(["raw", "raw", "raw", "zlib"])) if producer == "ref" else "raw",
            "alg": draw(st.sampled_from(["dir", "A128KW"]))}


huge_cases = st.fixed_dictionaries({"kind": st.just("huge"), "mib": st.sampled_from([8, 16, 32, 64]), "fill": st.sampled_from(["zeros", "periodic"]),
                                    "enc": st.sampled_from(jweplan.ENCS), "ser": st.sampled_from(["compact", "flattened"]), "seed": st.integers(0, 1000),
                                    # zlib-1 / zlib-9: zlib framing with a non-default header (78 01 / 78 da): outside what must be accepted,
                                    # but whatever the library does with it stays within the memory bound
                                    "framing": st.sampled_from(["raw", "zlib", "zlib-1", "zlib-9"])})


def _keys(enc, alg):
    size = rjwe.ENCS[enc][0] if alg == "dir" else 16
    ref = {"kty": "oct", "k": bytes(range(size))}
    return ref, jkey(ref, "dict", True)


def mint(c, raw_stream: bytes, plaintext_len: int):
    """Reference-minted token around an already compressed stream."""
    alg = c.get("alg", "dir")
    ref, jk = _keys(c["enc"], alg)
    plan = {"ser": c["ser"], "enc": c["enc"], "zip": "DEF", "plaintext_hex": "", "aad_hex": None, "protected": {"alg": alg, "enc": c["enc"], "zip": "DEF"},
            "unprotected": None, "recipients": [{"alg": alg, "key": {"kty": "oct", "k": rb.encode(ref["k"])}, "header": None, "kid": None}], "sender": None, "place": "protected"}
    tok, _ = jweplan.ref_encrypt(plan, c["seed"], ("canonical", 0), raw_zip=raw_stream)
    return tok, jk


def decrypt(tok, jk, lenient: bool = False):
    from joserfc import jwe
    # lenient: the caller's registry accepts any single recipient (verify_all_recipients=False); the bound and its error are the same
    kw = {"registry": jwe.JWERegistry(algorithms=jweplan.ALL_NAMES, verify_all_recipients=False)} if lenient else {"algorithms": jweplan.ALL_NAMES}
    if isinstance(tok, str):
        return jwe.decrypt_compact(tok, jk, **kw).plaintext
    return jwe.decrypt_json(tok, jk, **kw).plaintext


def judge(c, tok, jk, n, expected_plain, f, tag):
    from joserfc.errors import ExceededSizeError
    toklen = len(tok) if isinstance(tok, str) else len(json.dumps(tok))
    tracemalloc.start()
    base = tracemalloc.get_traced_memory()[0]
    tracemalloc.reset_peak()
    try:
        try:
            got = decrypt(tok, jk, lenient=c.get("seed", 0) % 3 == 1)
            err = None
        except Exception as e:
            got, err = None, e
        peak = tracemalloc.get_traced_memory()[1] - base
    finally:
        tracemalloc.stop()
    bound = 4 * LIMIT + 8 * toklen + (2 << 20)   # generous in the token size (base64/segment copies), tight in the expansion
    if peak > bound:
        f[f"C17:memory-not-bounded:{tag}"] = f"peak {peak} octets of Python allocations while decrypting a token of {toklen} octets expanding to {n} (bound {bound})"
    if n <= LIMIT:
        if err is not None:
            f[f"C17:within-limit-refused:{tag}:{exc_key(err)}"] = f"plaintext of {n} octets ({c.get('cls')}) within the limit: {type(err).__name__}: {err}"
        elif expected_plain is not None and got != expected_plain:
            f[f"C17:within-limit-wrong-data:{tag}"] = f"plaintext of {n} octets came back as {len(got)} octets"
    else:
        if err is None:
            how = "TRUNCATED to" if len(got) < n else "returned in full,"
            f[f"C17:over-limit-not-refused:{tag}:{'truncated' if len(got) < n else 'full'}"] = \
                f"stream expanding to {n} octets ({c.get('cls', c.get('fill'))}) was {how} {len(got)} octets instead of raising ExceededSizeError"
        elif not isinstance(err, ExceededSizeError) and not str(c.get("framing", "")).startswith("zlib-"):
            f[f"C17:over-limit-wrong-error:{tag}:{type(err).__name__}"] = f"{n} octets: {type(err).__name__}: {err}"


def run_case(c) -> dict:
    from joserfc import jwe
    f = {}
    if c["kind"] == "huge":
        total = c["mib"] << 20
        wbits = -15 if c["framing"] == "raw" else 15
        co = zlib.compressobj({"zlib-1": 1, "zlib-9": 9}.get(c["framing"], 6), zlib.DEFLATED, wbits)
        chunk = bytes(1 << 20) if c["fill"] == "zeros" else (bytes(range(256)) * 4096)
        parts = [co.compress(chunk) for _ in range(c["mib"])]
        parts.append(co.flush())
        stream = b"".join(parts)
        tok, jk = mint(dict(c, alg="dir"), stream, total)
        judge(c, tok, jk, total, None, f, f"huge:{c['framing']}")
        return f
    n = c["n"]
    pt = make_plaintext(c["cls"], n, c["seed"], c["period"])
    tag = f"{c['producer']}:{c['framing']}"
    if c["producer"] == "joserfc":
        ref, jk = _keys(c["enc"], c["alg"])
        hdr = {"alg": c["alg"], "enc": c["enc"], "zip": "DEF"}
        try:
            if c["ser"] == "compact":
                tok = jwe.encrypt_compact(hdr, pt, jk, algorithms=jweplan.ALL_NAMES)
            else:
                # JSON serialization: now and then with an AAD member and a shared unprotected header next to the compressed content
                o = jwe.FlattenedJSONEncryption(hdr, pt, {"cty": "text"} if c["seed"] % 3 == 0 else None, b"additional data" if c["seed"] % 4 < 2 else None)
                o.add_recipient(None, jk)
                tok = jwe.encrypt_json(o, None, algorithms=jweplan.ALL_NAMES)
                if c["seed"] % 2:
                    # encrypting the same object again must yield an equivalent token (nothing is compressed twice)
                    tok = jwe.encrypt_json(o, None, algorithms=jweplan.ALL_NAMES)
        except Exception as e:
            return {f"C17:encrypt-with-zip-raises:{exc_key(e)}": f"{n} octets: {type(e).__name__}: {e}"}
        # the compressed stream joserfc produced must be complete raw DEFLATE
        try:
            plan = {"ser": c["ser"], "recipients": [{"alg": c["alg"], "key": {"kty": "oct", "k": rb.encode(ref["k"])}, "header": None, "kid": None}], "sender": None}
            r = jweplan.ref_decrypt(tok, plan, strict=True, limit=None)
            if r["plaintext"] != pt:
                f["C17:compressed-stream-wrong-data"] = "reference inflates other data"
        except rjwe.Reject as e:
            f[f"C17:compressed-stream-not-raw-deflate:{str(e)[:30]}"] = f"joserfc's zip=DEF output is refused by a strict raw-DEFLATE reader: {e}"
    else:
        if c["framing"] == "zlib":
            stream = zlib.compress(pt, c["level"])
            if stream[:2] != b"\x78\x9c":
                stream = zlib.compress(pt, 6)
        else:
            stream = rjwe.deflate(pt, c["level"])
        tok, jk = mint(c, stream, n)
    judge(c, tok, jk, n, pt, f, tag)
    return f


def shards(tier):
    return [(f"z{i:02d}", {"part": "gen"}) for i in range(13)] + [(f"h{i}", {"part": "huge"}) for i in range(3)] + [("rec", {"part": "records"})]


def run_shard(ctx, spec):
    from gens.jose import setup_joserfc
    setup_joserfc()
    selftest.run()

    def body(c):
        f = run_case(c)
        if c["kind"] == "huge":
            ctx.case(("huge", c["mib"], c["fill"], c["enc"], c["ser"], c["framing"]), cls=["over-limit", "ratio>=100", "huge", "producer:ref"] + (["zlib-framed"] if c["framing"] == "zlib" else []),
                     sample=c)
        else:
            n = c["n"]
            near = abs(n - LIMIT) <= 1000
            comp = c["cls"] != "random"
            cls = [f"class:{c['cls']}", f"producer:{c['producer']}", "over-limit" if n > LIMIT else "under-limit"]
            if near:
                cls.append("near-limit")
            if comp and n >= 10000 and c["cls"] in ("constant", "periodic", "random-then-zeros", "zeros-then-random"):
                cls.append("ratio>=100")
            if c["framing"] == "zlib":
                cls.append("zlib-framed")
            ctx.case((c["cls"], n - LIMIT if near else n, c["enc"], c["ser"], c["producer"], c["framing"], c["level"] if c["producer"] == "ref" else None,
                      c["period"] if c["cls"] == "periodic" else None),
                     nontrivial=near or "ratio>=100" in cls, cls=cls, sample={k: c[k] for k in ("cls", "n", "enc", "ser", "producer", "level", "framing", "alg")})
        for k, w in f.items():
            ctx.finding(k, w, c)
    if spec["part"] == "records":
        # joserfc compresses multi-block record-like plaintexts whose longest repeats fall into each DEFLATE length code
        def sweep(seed0):
            for w in LENGTH_CODE_REPS:
                for n in (120000, 200000, LIMIT - 7):
                    for k in range(2 if ctx.tier == "quick" else 12):
                        if ctx.expired():
                            return
                        body({"kind": "records", "cls": "records", "n": n, "seed": seed0 + k, "period": w, "enc": jweplan.ENCS[(w + k) % len(jweplan.ENCS)],
                              "ser": "compact" if k % 2 == 0 else "flattened", "producer": "joserfc", "level": 6, "framing": "raw", "alg": "dir"})
        drive(ctx, "records", st.integers(0, 10**6), sweep, 1)
    elif spec["part"] == "gen":
        drive(ctx, "gen", cases(), body, 200 if ctx.tier == "quick" else 3000)
    else:
        if ctx.tier == "thorough":
            strat = st.fixed_dictionaries({"kind": st.just("huge"), "mib": st.sampled_from([64, 128, 256, 512]), "fill": st.sampled_from(["zeros", "periodic"]),
                                           "enc": st.sampled_from(jweplan.ENCS), "ser": st.sampled_from(["compact", "flattened"]), "seed": st.integers(0, 1000),
                                           "framing": st.sampled_from(["raw", "zlib", "zlib-1", "zlib-9"])})
        else:
            strat = huge_cases
        drive(ctx, "huge", strat, body, 40 if ctx.tier == "quick" else 120)


def replay(rec) -> dict:
    from gens.jose import setup_joserfc
    setup_joserfc()
    return run_case(rec)
