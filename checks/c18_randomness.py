"""C18 - every encryption and key generation draws fresh randomness of the right size.

Histories (generated orderings of encryptions over several configurations with the same key objects, interleaved with host-application
calls to random.seed() and with decrypt -> re-encrypt steps) are executed; IV, CEK (recovered through the independent reference), epk,
AES-GCM key-wrap IV and PBES2 salt/count are observed and must be of the exact size, pairwise distinct and without fixed bits.
The same histories are run in K fresh interpreter processes and compared across processes.
"""
from __future__ import annotations
import copy
import json
import os
import random
import subprocess
import sys

from hypothesis import strategies as st

from harness.core import HarnessError, VERIF, REPO
from harness.hyp import drive
from gens import keys as gk, jweplan, pem as gpem
from gens.jose import jkey
from ref import jwe as rjwe, b64 as rb, keys as rk, selftest
from ref.ec import CURVES
from ref.okp import OKP_SIZES

LEVEL = "exploration"
RULE = ("histories = Hypothesis-generated interleavings of N encryptions per configuration (alg x enc x serialization; the same key object, "
        "equal header values in a fresh dict each time) with host calls random.seed(k) and decrypt_json -> encrypt_json steps on the "
        "returned object; general JSON messages carry 1-3 recipients, each observed on its own; observed per encryption: content IV, CEK (unwrapped with the recipient key by the reference, or the agreed key), "
        "epk, A*GCMKW iv, PBES2 p2s/p2c. Invariants over the history: exact sizes (IV = enc iv size, CEK = enc key size, GCMKW iv 96 bit, "
        "p2s >= 8 octets, default p2c >= 1000, epk a valid point on the recipient's curve), pairwise distinct values, every bit position "
        "of IV/CEK/GCMKW iv/p2s takes both values over >= 128 samples; the same history run in 4 fresh processes (each seeding random "
        "identically, as a host application might) shares no value. Key generation: N keys per type/size/curve pairwise distinct, of the "
        "requested size/curve (sizes at the edges are refused or exact), oct keys without fixed bits; key sets generated in one call hold pairwise distinct keys. non-trivial: histories with >= 2 encryptions of one configuration; distinct = "
        "(configuration, step kind) pairs observed.")
ASSUMPTIONS = ["detects constants, per-call/per-process resets, cached values, fixed bits and wrong sizes; cannot detect a weak but non-repeating generator",
               "false-alarm probability of the fixed-bit test: < 2^-100 per run (N >= 128 samples per bit position)"]
BUDGET_S = {"quick": 85, "thorough": 1500}
FLOORS = {"quick": {"encryptions": 6000, "obs:iv": 6000, "obs:cek": 3000, "obs:epk": 800, "obs:gcmkw-iv": 300, "obs:p2s": 300, "step:reencrypt": 100,
                    "keys-generated": 1500, "cross-process-values": 200}, "thorough": {"encryptions": 80000}}

CONFIGS = []
for _enc in jweplan.ENCS:
    CONFIGS.append(("dir", _enc))
    CONFIGS.append(("A128KW", _enc))
for _alg in ["A192KW", "A256KW", "A128GCMKW", "A192GCMKW", "A256GCMKW", "PBES2-HS256+A128KW", "PBES2-HS384+A192KW", "PBES2-HS512+A256KW",
             "RSA-OAEP", "RSA1_5", "RSA-OAEP-256", "ECDH-ES", "ECDH-ES+A128KW", "ECDH-ES+A256KW", "ECDH-1PU", "ECDH-1PU+A128KW"]:
    CONFIGS.append((_alg, "A128CBC-HS256" if "1PU+" in _alg else "A128GCM"))
CURVES_ECDH = ["P-256", "P-384", "P-521", "secp256k1", "X25519", "X448"]


def key_for(alg, enc, curve):
    if alg in rjwe.RSA_ALGS:
        return {k: v for k, v in gk.rsa_pool()[3].items() if k != "bits"}
    if alg == "dir":
        return {"kty": "oct", "k": bytes(range(rjwe.ENCS[enc][0]))}
    if alg in rjwe.KW_SIZE or alg in rjwe.GCMKW_SIZE:
        return {"kty": "oct", "k": bytes(range(rjwe.KW_SIZE.get(alg) or rjwe.GCMKW_SIZE[alg]))}
    if alg in rjwe.PBES2:
        return {"kty": "oct", "k": b"correct horse battery staple"}
    return gk.ec_from_d(curve, 20240927) if curve in CURVES else gk.okp_from_seed(curve, bytes(range(7, 7 + OKP_SIZES[curve])))


class World:
    """Long-lived key objects per configuration (shared by all encryptions of a history)."""

    def __init__(self):
        self.keys = {}

    def get(self, alg, enc, curve):
        ck = (alg, enc, curve if alg.startswith("ECDH") else None)
        if ck not in self.keys:
            ref = key_for(alg, enc, curve)
            pub = jkey(ref if ref["kty"] == "oct" else rk.public_of(ref), "dict", ref["kty"] == "oct")
            priv = jkey(ref, "dict", True)
            sref = None
            spriv = spub = None
            if alg in rjwe.ECDH_1PU:
                sref = gk.ec_from_d(curve, 99887766) if curve in CURVES else gk.okp_from_seed(curve, bytes(range(50, 50 + OKP_SIZES[curve])))
                spriv, spub = jkey(sref, "dict", True), jkey(rk.public_of(sref), "dict", False)
            self.keys[ck] = (ref, pub, priv, sref, spriv, spub)
        return self.keys[ck]


def encrypt_once(world, alg, enc, curve, ser, header_extra=None, variant=0):
    from joserfc import jwe
    ref, pub, priv, sref, spriv, spub = world.get(alg, enc, curve)
    hdr = {"alg": alg, "enc": enc}     # a fresh header object with equal values
    if header_extra:
        hdr.update(header_extra)
    if ser == "compact":
        tok = jwe.encrypt_compact(hdr, b"same plaintext", pub, algorithms=jweplan.ALL_NAMES, sender_key=spriv)
    else:
        cls = jwe.FlattenedJSONEncryption if ser == "flattened" else jwe.GeneralJSONEncryption
        # general JSON: one message for 1-3 recipients (same algorithm, same recipient key): every recipient gets values of its own
        nrec = 1 + (variant // 3) % 3 if (ser == "general" and alg not in rjwe.DIRECT) else 1
        if variant % 3 == 0:
            o = cls({"enc": enc}, b"same plaintext")
            for _ in range(nrec):
                o.add_recipient({"alg": alg}, pub)
        elif variant % 3 == 1:
            o = cls({"alg": alg, "enc": enc}, b"same plaintext")       # alg protected, recipient without a header of its own
            for _ in range(nrec):
                o.add_recipient(None, pub)
        else:
            o = cls({"alg": alg, "enc": enc}, b"same plaintext")
            for _ in range(nrec):
                o.add_recipient(key=pub)                                 # header argument left out altogether
        tok = jwe.encrypt_json(o, None, algorithms=jweplan.ALL_NAMES, sender_key=spriv)
    return tok


def reencrypt(world, alg, enc, curve, tok):
    """decrypt a JSON token and encrypt the returned object again (open - amend - re-seal)."""
    from joserfc import jwe
    ref, pub, priv, sref, spriv, spub = world.get(alg, enc, curve)
    obj = jwe.decrypt_json(copy.deepcopy(tok), priv, algorithms=jweplan.ALL_NAMES, sender_key=spub)
    for r in obj.recipients:
        r.recipient_key = pub
        r.sender_key = None        # the sealing side uses its own (private) sender key
        if r.header:
            for m in ("epk", "iv", "tag", "p2s", "p2c"):
                r.header.pop(m, None)
    return jwe.encrypt_json(obj, None, algorithms=jweplan.ALL_NAMES, sender_key=spriv)


def observe(world, alg, enc, curve, tok) -> dict:
    """Values of one produced token (CEK through the reference)."""
    ref, pub, priv, sref, spriv, spub = world.get(alg, enc, curve)
    if isinstance(tok, str):
        segs = tok.split(".")
        prot = json.loads(rb.decode(segs[0]))
        iv = rb.decode(segs[2])
        hdr = prot
    else:
        prot = json.loads(rb.decode(tok["protected"]))
        iv = rb.decode(tok["iv"])
        ent = (tok.get("recipients") or [tok])[0]
        hdr = {**prot, **(tok.get("unprotected") or {}), **(ent.get("header") or {})}
    # one record: every recipient of the message was given the same key
    plan = {"recipients": [{"alg": alg, "key": gk.key_to_record(ref), "header": None, "kid": None}], "sender": gk.key_to_record(sref) if sref else None}
    obs = {"iv": iv}
    try:
        try:
            r = jweplan.ref_decrypt(tok, plan, strict=True)
        except rjwe.Reject:
            r = jweplan.ref_decrypt(tok, plan, strict=False)
        if r["plaintext"] != b"same plaintext":
            raise HarnessError("reference decrypts other plaintext")
        obs["cek"] = r["cek"]
    except rjwe.Reject as e:
        obs["unreadable"] = str(e)       # reported by check_history; the values visible in the header are still judged
    if "epk" in hdr:
        obs["epk"] = hdr["epk"]
    if alg in rjwe.GCMKW_SIZE:
        obs["gcmkw-iv"] = rb.decode(hdr["iv"])
    if alg in rjwe.PBES2:
        obs["p2s"] = rb.decode(hdr["p2s"])
        obs["p2c"] = hdr["p2c"]
    # further recipients of the same message: their effective header values are observations of their own
    obs["more"] = []
    if not isinstance(tok, str):
        for ent in (tok.get("recipients") or [])[1:]:
            h2 = {**prot, **(tok.get("unprotected") or {}), **(ent.get("header") or {})}
            o2 = {}
            if "epk" in h2:
                o2["epk"] = h2["epk"]
            if alg in rjwe.GCMKW_SIZE and "iv" in h2:
                o2["gcmkw-iv"] = rb.decode(h2["iv"])
            if alg in rjwe.PBES2 and "p2s" in h2:
                o2["p2s"], o2["p2c"] = rb.decode(h2["p2s"]), h2.get("p2c")
            obs["more"].append(o2)
    return obs


def _judge_agreement_values(obs, alg, curve, groups, f):
    """epk, A*GCMKW iv and PBES2 salt of one recipient."""
    if "epk" in obs:
        epk = obs["epk"]
        try:
            p = rk.parse_jwk(epk, strict=True)
            if p.get("crv") != curve or rk.is_private(p):
                f[f"C18:epk-curve:{curve}"] = f"epk {epk!r} for a recipient key on {curve}"
        except rk.JWKError as e:
            f[f"C18:epk-invalid:{curve}"] = f"{epk!r}: {e}"
        groups[("epk", curve)].append(json.dumps(epk, sort_keys=True).encode())
    if "gcmkw-iv" in obs:
        if len(obs["gcmkw-iv"]) != 12:
            f["C18:gcmkw-iv-size"] = f"{len(obs['gcmkw-iv'])} octets"
        groups[("gcmkw-iv", 12)].append(obs["gcmkw-iv"])
    if "p2s" in obs:
        if len(obs["p2s"]) < 8:
            f["C18:p2s-too-short"] = f"{len(obs['p2s'])} octets"
        if not (isinstance(obs["p2c"], int) and obs["p2c"] >= 1000):
            f["C18:default-p2c-too-small"] = repr(obs["p2c"])
        groups[("p2s", len(obs["p2s"]))].append(obs["p2s"])


# ------------------------------------------------------------------ history check
def check_history(records, f, where):
    """records: list of (config tuple, obs dict)."""
    from collections import defaultdict
    groups = defaultdict(list)
    flat = []
    for cfg, obs in records:
        flat.append((cfg, obs))
        for o2 in obs.get("more", []):
            flat.append((cfg, {"_extra": True, **o2}))
    for (alg, enc, curve, ser), obs in flat:
        if obs.get("_extra"):
            _judge_agreement_values(obs, alg, curve, groups, f)
            continue
        cek_len, iv_len = rjwe.ENCS[enc]
        if len(obs["iv"]) != iv_len:
            f[f"C18:iv-size:{enc}"] = f"IV of {len(obs['iv'])} octets for {enc}"
        if "unreadable" in obs:
            f[f"C18:token-unreadable-for-reference:{alg}"] = f"the reference cannot open joserfc's {alg}/{enc} token: {obs['unreadable']}"
        elif len(obs["cek"]) != cek_len:
            f[f"C18:cek-size:{enc}"] = f"CEK of {len(obs['cek'])} octets for {enc}"
        groups[("iv", iv_len)].append(obs["iv"])
        if alg != "dir" and "cek" in obs:
            groups[("cek", cek_len)].append(obs["cek"])
        _judge_agreement_values(obs, alg, curve, groups, f)
    for (kind, size), vals in groups.items():
        if len(set(vals)) != len(vals):
            dup = next(v for v in vals if vals.count(v) > 1)
            f[f"C18:repeated-{kind}:{where}"] = f"{kind} value {dup.hex() if kind != 'epk' else dup.decode()[:80]} occurs {vals.count(dup)} times among {len(vals)} encryptions"
        if kind != "epk" and len(vals) >= 128:
            bad = fixed_bits(vals)
            if bad:
                f[f"C18:fixed-bits-{kind}"] = f"bit positions {bad[:8]} of the {kind} never change over {len(vals)} samples"
    return groups


def fixed_bits(vals):
    n = min(len(v) for v in vals)
    ones = [0] * (n * 8)
    for v in vals:
        x = int.from_bytes(v[:n], "big")
        for i in range(n * 8):
            if (x >> (n * 8 - 1 - i)) & 1:
                ones[i] += 1
    return [i for i, c in enumerate(ones) if c == 0 or c == len(vals)]


# ------------------------------------------------------------------ running a history
history = st.fixed_dictionaries({
    "configs": st.lists(st.tuples(st.integers(0, len(CONFIGS) - 1), st.sampled_from(CURVES_ECDH), st.sampled_from(["compact", "flattened", "general"])),
                        min_size=3, max_size=6),
    "order_seed": st.integers(0, 2**32),
    "n": st.just(0),
    "host_seed": st.one_of(st.none(), st.integers(0, 5)),
    "reseed_every": st.sampled_from([0, 0, 1, 7]),
    "reencrypt": st.booleans(),
})


def run_history(h, n_per_config, f, ctx=None):
    world = World()
    cfgs = [(CONFIGS[i][0], CONFIGS[i][1], curve, ser) for i, curve, ser in h["configs"]]
    steps = [c for c in cfgs for _ in range(n_per_config)]
    random.Random(h["order_seed"]).shuffle(steps)
    if h["host_seed"] is not None:
        random.seed(h["host_seed"])        # the host application seeds the global PRNG (its own business)
    records = []
    last_json = {}
    for i, (alg, enc, curve, ser) in enumerate(steps):
        if h["reseed_every"] and h["host_seed"] is not None and i % h["reseed_every"] == 0:
            random.seed(h["host_seed"])
        try:
            tok = encrypt_once(world, alg, enc, curve, ser, variant=i + h["order_seed"])
        except Exception as e:
            # every configuration of a history encrypts fine on its own (they are all valid): failing only after other encryptions
            # means state was carried over from an earlier call
            f[f"C18:encryption-fails-in-history:{type(e).__name__}"] = f"encryption #{i} ({alg}, {enc}, {ser}) raised {type(e).__name__}: {e} after earlier encryptions"
            continue
        records.append(((alg, enc, curve, ser), observe(world, alg, enc, curve, tok)))
        if ctx is not None:
            ctx.count("encryptions")
        if ser != "compact":
            last_json[(alg, enc, curve, ser)] = tok
        if h["reencrypt"] and ser != "compact" and i % 5 == 0 and alg not in ("dir",):
            try:
                tok2 = reencrypt(world, alg, enc, curve, last_json[(alg, enc, curve, ser)])
                records.append(((alg, enc, curve, ser), observe(world, alg, enc, curve, tok2)))
                last_json[(alg, enc, curve, ser)] = tok2
                if ctx is not None:
                    ctx.count("step:reencrypt")
            except HarnessError:
                raise
            except Exception as e:
                f[f"C18:reencrypt-raises:{type(e).__name__}"] = f"decrypt_json -> encrypt_json of the returned object: {type(e).__name__}: {e} ({alg}, {enc})"
    return records


def child_main(argv):
    """Run inside a fresh interpreter: print the observations of a fixed history as JSON."""
    from harness import core
    core.setup_path()
    from gens.jose import setup_joserfc
    setup_joserfc()
    h = json.loads(argv[0])
    f = {}
    recs = run_history(h, int(argv[1]), f)
    out = []
    for cfg, obs in recs:
        out.append([list(cfg), {k: (v.hex() if isinstance(v, bytes) else v) for k, v in obs.items() if k != "more"}])
    # generated keys
    from joserfc.jwk import OctKey, ECKey, OKPKey
    random.seed(h["host_seed"] or 0)
    keys = [OctKey.generate_key(128).as_dict()["k"] for _ in range(3)] + [ECKey.generate_key("P-256").as_dict()["d"] for _ in range(2)] + \
           [OKPKey.generate_key("Ed25519").as_dict()["d"] for _ in range(2)]
    print(json.dumps({"records": out, "keys": keys, "findings": f}))


def run_forked(h, n_per_config, k=4):
    """The parent encrypts once per configuration, then forks k children which all run the same history (pre-fork server model):
    whatever entropy the library buffered before the fork must not be handed out again in several children."""
    from harness.fork import in_child
    world = World()
    cfgs = [(CONFIGS[i][0], CONFIGS[i][1], curve, ser) for i, curve, ser in h["configs"]]
    for (alg, enc, curve, ser) in cfgs:
        encrypt_once(world, alg, enc, curve, ser)

    def child():
        f = {}
        recs = run_history(dict(h, host_seed=None, reencrypt=False), n_per_config, f)
        return [[list(cfg), {k_: (v.hex() if isinstance(v, bytes) else v) for k_, v in obs.items() if k_ != "more"}] for cfg, obs in recs]
    return [{"records": in_child(child), "keys": [], "findings": {}} for _ in range(k)]


def run_cross_process(h, n_per_config, k=4):
    outs = []
    env = dict(os.environ, VERIF_REPO=REPO, PYTHONHASHSEED="0")
    procs = [subprocess.Popen([sys.executable, "-c", "import sys; sys.path.insert(0, %r); from checks import c18_randomness as m; m.child_main(sys.argv[1:])" % VERIF,
                               json.dumps(h), str(n_per_config)], stdout=subprocess.PIPE, stderr=subprocess.PIPE, env=env, text=True) for _ in range(k)]
    for p in procs:
        o, e = p.communicate(timeout=300)
        if p.returncode != 0:
            raise HarnessError(f"child process failed: {e[-800:]}")
        outs.append(json.loads(o.strip().splitlines()[-1]))
    return outs


# ------------------------------------------------------------------ key generation
def run_keygen(n, f, ctx):
    from joserfc.jwk import OctKey, RSAKey, ECKey, OKPKey, JWKRegistry
    for bits in (8, 128, 256, 512):
        vals = []
        for _ in range(n):
            k = OctKey.generate_key(bits)
            raw = rb.decode(k.as_dict()["k"])
            if len(raw) * 8 != bits:
                f[f"C18:oct-key-size:{bits}"] = f"generate_key({bits}) gave {len(raw) * 8} bits"
            vals.append(raw)
            ctx.count("keys-generated")
        if bits >= 128:
            if len(set(vals)) != len(vals):
                f[f"C18:repeated-generated-key:oct{bits}"] = "two generated oct keys are equal"
            if n >= 128 and fixed_bits(vals):
                f[f"C18:fixed-bits-generated-oct{bits}"] = f"bit positions {fixed_bits(vals)[:8]} never change"
    for crv in ("P-256", "P-384", "P-521", "secp256k1"):
        vals = []
        for _ in range(max(8, n // 4)):
            k = ECKey.generate_key(crv) if _ % 2 else JWKRegistry.generate_key("EC", crv)
            d = k.as_dict(private=True)
            if d.get("crv") != crv:
                f[f"C18:generated-key-curve:{crv}"] = repr(d.get("crv"))
            vals.append(d["d"])
            ctx.count("keys-generated")
        if len(set(vals)) != len(vals):
            f[f"C18:repeated-generated-key:{crv}"] = "two generated EC keys are equal"
    for crv in ("Ed25519", "Ed448", "X25519", "X448"):
        vals = []
        for _ in range(max(8, n // 4)):
            d = OKPKey.generate_key(crv).as_dict(private=True)
            if d.get("crv") != crv or len(rb.decode(d["d"])) != OKP_SIZES[crv]:
                f[f"C18:generated-key-curve:{crv}"] = repr(d.get("crv"))
            vals.append(d["d"])
            ctx.count("keys-generated")
        if len(set(vals)) != len(vals):
            f[f"C18:repeated-generated-key:{crv}"] = "two generated OKP keys are equal"
    vals = []
    for bits in (1024, 1024, 1024, 2048):
        k = RSAKey.generate_key(bits)
        n_ = rb.b64_to_int(k.as_dict()["n"])
        if n_.bit_length() != bits:
            f[f"C18:rsa-key-size:{bits}"] = f"{n_.bit_length()} bits"
        vals.append(n_)
        ctx.count("keys-generated")
    if len(set(vals)) != len(vals):
        f["C18:repeated-generated-key:RSA"] = "two generated RSA keys are equal"
    # sizes at the edges of what the library / backend takes: the call may refuse, a key it returns has the requested size
    for bits in (512, 768, 1000, 1016, 1032, 1536):
        for gen in (lambda: RSAKey.generate_key(bits), lambda: JWKRegistry.generate_key("RSA", bits), lambda: RSAKey.generate_key(bits, private=False)):
            try:
                k = gen()
            except Exception:
                ctx.count("rsa-size-refused")
                continue
            n_ = rb.b64_to_int(k.as_dict()["n"])
            ctx.count("keys-generated")
            if n_.bit_length() != bits:
                f[f"C18:rsa-key-size:{bits}"] = f"generate_key({bits}) returned a key of {n_.bit_length()} bits"
    # the requested size holds whatever else the caller says about the key (an alg parameter is a label, not a size)
    for bits, alg in ((512, "HS256"), (256, "A128KW"), (128, "HS512"), (384, "A128GCMKW"), (256, "dir")):
        for gen in (lambda: OctKey.generate_key(bits, {"alg": alg}), lambda: JWKRegistry.generate_key("oct", bits, {"alg": alg, "use": "sig" if alg.startswith("HS") else "enc"})):
            try:
                raw = rb.decode(gen().as_dict()["k"])
            except Exception:
                continue
            ctx.count("keys-generated")
            if len(raw) * 8 != bits:
                f[f"C18:oct-key-size:with-alg-parameter"] = f"generate_key({bits}, alg={alg}) gave {len(raw) * 8} bits"
    for bits in (72, 96, 520):
        try:
            raw = rb.decode(OctKey.generate_key(bits).as_dict()["k"])
        except Exception:
            continue
        if len(raw) * 8 != bits:
            f[f"C18:oct-key-size:{bits}"] = f"generate_key({bits}) gave {len(raw) * 8} bits"
    # key sets generated in one call: every member is a key of its own
    from joserfc.jwk import KeySet
    for kty, arg, member in (("oct", 128, "k"), ("oct", 256, "k"), ("EC", "P-256", "d"), ("EC", "P-521", "d"), ("OKP", "Ed25519", "d"), ("OKP", "X448", "d"), ("RSA", 1024, "n")):
        for count in ((2, 4) if kty != "RSA" else (2,)):
            for how in ("keyword", "default"):
                ks = KeySet.generate_key_set(kty, arg, count=count) if how == "keyword" else KeySet.generate_key_set(kty, arg)
                want = count if how == "keyword" else 4
                ds = [k.as_dict(private=True) for k in ks.keys]
                ctx.count("keys-generated", len(ds))
                if len(ds) != want:
                    f[f"C18:generated-key-set-size:{kty}"] = f"{len(ds)} keys, {want} requested"
                if len({d[member] for d in ds}) != len(ds) or len({id(k) for k in ks.keys}) != len(ds):
                    f[f"C18:repeated-generated-key:key-set:{kty}"] = f"generate_key_set({kty!r}, {arg!r}, count={want}) holds {len({d[member] for d in ds})} distinct keys"
                if kty == "oct" and any(len(rb.decode(d["k"])) * 8 != arg for d in ds):
                    f[f"C18:oct-key-size:key-set:{arg}"] = "key of another size in a generated set"
                if kty in ("EC", "OKP") and any(d.get("crv") != arg for d in ds):
                    f[f"C18:generated-key-curve:key-set:{arg}"] = "key on another curve in a generated set"
                if kty == "RSA":
                    break


def shards(tier):
    return [(f"h{i:02d}", {"part": "history", "i": i}) for i in range(11)] + [(f"x{i}", {"part": "cross", "i": i}) for i in range(3)] + \
           [("kg0", {"part": "keygen"}), ("kg1", {"part": "keygen"})]


def run_shard(ctx, spec):
    from gens.jose import setup_joserfc
    setup_joserfc()
    selftest.run()
    quick = ctx.tier == "quick"
    if spec["part"] == "history":
        def body(h):
            # make sure a few configurations reach >= 128 samples for the fixed-bit test
            f = {}
            n = 140 if quick else 300
            try:
                recs = run_history(h, n, f, ctx)
            finally:
                random.seed()
            groups = check_history(recs, f, "within-process")
            for (kind, size), vals in groups.items():
                ctx.count(f"obs:{kind}", len(vals))
            cfgs = {c for c, _ in recs}
            for c in cfgs:
                ctx.case(("hist", c, h["host_seed"] is not None, h["reseed_every"], h["reencrypt"]), cls=[f"alg:{c[0]}", f"enc:{c[1]}", f"ser:{c[3]}"],
                         sample={"configs": [list(x) for x in cfgs], "per_config": n, "host_seed": h["host_seed"], "reseed_every": h["reseed_every"], "reencrypt": h["reencrypt"]})
            for k, w in f.items():
                ctx.finding(k, w, {"history": h, "n": n})
        drive(ctx, "hist", history, body, 10 if quick else 40)
    elif spec["part"] == "cross":
        def body(h):
            h = dict(h, host_seed=h["host_seed"] if h["host_seed"] is not None else 3)
            forked = h["order_seed"] % 2 == 1
            outs = run_forked(h, 6 if quick else 30) if forked else run_cross_process(h, 6 if quick else 30)
            f = {}
            for o in outs:
                f.update(o["findings"])
            seen = {}
            n = 0
            for pi, o in enumerate(outs):
                for cfg, obs in o["records"]:
                    for kind in ("iv", "cek", "epk", "gcmkw-iv", "p2s"):
                        if kind not in obs or (kind == "cek" and cfg[0] == "dir"):
                            continue
                        v = json.dumps(obs[kind], sort_keys=True)
                        n += 1
                        if (kind, v) in seen and seen[(kind, v)] != pi:
                            f[f"C18:repeated-{kind}:across-processes"] = f"{kind} {v[:80]} produced by two fresh processes running the same history ({cfg})"
                        seen[(kind, v)] = pi
                for v in o["keys"]:
                    n += 1
                    if ("key", v) in seen and seen[("key", v)] != pi:
                        f["C18:repeated-generated-key:across-processes"] = "the same key was generated in two fresh processes"
                    seen[("key", v)] = pi
            ctx.count("cross-process-values", n)
            ctx.case(("cross", json.dumps(h["configs"])), cls="cross-process", sample={"processes": len(outs), "values": n, "history": h}, n=n)
            for k, w in f.items():
                ctx.finding(k + (":after-fork" if forked and "across-processes" in k else ""), w, {"history": h, "n": 6 if quick else 30, "cross": True, "forked": forked})
            ctx.count("cross:forked" if forked else "cross:spawned")
        drive(ctx, "cross", history, body, 4 if quick else 12)
    else:
        f = {}
        random.seed(5)
        try:
            run_keygen(160 if quick else 1000, f, ctx)
        finally:
            random.seed()
        ctx.case(("keygen", ctx.shard), cls="keygen", sample={"part": "key generation", "per_type": 160 if quick else 1000})
        ctx.case(("keygen2", ctx.shard), cls="keygen")
        for k, w in f.items():
            ctx.finding(k, w, {"keygen": True})


def replay(rec) -> dict:
    from gens.jose import setup_joserfc
    setup_joserfc()
    f = {}
    if rec.get("keygen"):
        class C:
            def count(self, *a, **k):
                pass
        run_keygen(160, f, C())
        return f
    h = rec["history"]
    if rec.get("cross"):
        outs = run_forked(h, rec["n"]) if rec.get("forked") else run_cross_process(h, rec["n"])
        seen = {}
        for pi, o in enumerate(outs):
            f.update(o["findings"])
            for cfg, obs in o["records"]:
                for kind in ("iv", "cek", "epk", "gcmkw-iv", "p2s"):
                    if kind in obs and not (kind == "cek" and cfg[0] == "dir"):
                        v = json.dumps(obs[kind], sort_keys=True)
                        if (kind, v) in seen and seen[(kind, v)] != pi:
                            f[f"C18:repeated-{kind}:across-processes" + (":after-fork" if rec.get("forked") else "")] = v[:80]
                        seen[(kind, v)] = pi
        return f
    try:
        recs = run_history(h, rec["n"], f)
    finally:
        random.seed()
    check_history(recs, f, "within-process")
    return f
