"""C19 - base64url and integer codecs are strict and lossless.

Oracle: independent codec ref.b64 (differential) + round trip + alphabet regex +
"must raise ValueError" for every string with a non-alphabet byte / impossible length.
DONT_CARE: trailing '=', non-canonical trailing bits, the integer zero.
"""
from __future__ import annotations

import itertools
import json
import math
import re

from hypothesis import strategies as st

from harness.hyp import drive
from gens.jsonv import json_object
from ref import b64 as rb

LEVEL = "exploration"
RULE = ("octet strings of length 0-2 enumerated exhaustively, longer ones drawn by Hypothesis; every non-alphabet "
        "byte value (192) inserted at every position of generated valid encodings (len 0-12) and lengths = 1 mod 4; "
        "integers around powers of 256 up to 2^4096, negatives; encode_int/decode_int for widths 64/256/384/521; JSON "
        "objects for json_b64encode/decode (round trip, and a second decode of the same segment after the caller edited the first result; wide headers and strings full of brackets); the integer members of real RSA keys as joserfc writes them into a JWK must be in minimal form. A case is non-trivial unless it is the empty string; distinct = digest "
        "of (function, input).")
ASSUMPTIONS = ["reference codec /verif/ref/b64.py is a correct RFC 4648 section 5 codec (self-tested against known vectors)",
               "trailing '=', non-canonical trailing bits and the integer 0 are outside the statement (DONT_CARE)"]
EXHAUSTIVE = {"quick": False, "thorough": False}
BUDGET_S = {"quick": 80, "thorough": 900}
FLOORS = {"quick": {"b64:roundtrip": 60000, "b64:invalid-char-rejected": 20000, "int:roundtrip": 3000},
          "thorough": {"b64:roundtrip": 60000, "b64:invalid-char-rejected": 100000, "int:roundtrip": 20000}}

_RE = re.compile(rb"^[A-Za-z0-9_-]*$")
ALPHA = rb.ALPHABET.encode()
NON_ALPHA = [b for b in range(256) if b not in ALPHA]
assert len(NON_ALPHA) == 192


def shards(tier):
    out = [(f"exh{i}", {"part": "exhaustive", "i": i, "n": 8}) for i in range(8)]
    k = 4 if tier == "quick" else 8
    out += [(f"rand{i}", {"part": "random", "i": i}) for i in range(k // 2)]
    out += [(f"inv{i}", {"part": "invalid", "i": i}) for i in range(k // 2)]
    out += [("ints", {"part": "ints"}), ("fixedint", {"part": "fixedint"}), ("json", {"part": "json"})]
    if tier == "thorough":
        out += [(f"ath{i}", {"part": "atheris", "seconds": 300}) for i in range(4)]
    return out


# ---------------------------------------------------------------- single-case oracles (used by replay too)
def case_b64_roundtrip(data: bytes) -> dict:
    from joserfc.util import urlsafe_b64encode, urlsafe_b64decode
    f = {}
    enc = urlsafe_b64encode(data)
    if not isinstance(enc, bytes) or not _RE.match(enc):
        f["C19:b64encode-alphabet"] = f"encoding of {data.hex()} is {enc!r}: not over the unpadded url-safe alphabet"
    elif enc.decode() != rb.encode(data):
        f["C19:b64encode-differs-from-reference"] = f"encode({data.hex()}) = {enc!r}, reference {rb.encode(data)!r}"
    try:
        dec = urlsafe_b64decode(enc)
    except Exception as e:
        f["C19:b64decode-own-encoding-raises"] = f"decode(encode({data.hex()})) raised {type(e).__name__}: {e}"
    else:
        if dec != data:
            f["C19:b64-roundtrip-lossy"] = f"decode(encode({data.hex()})) = {dec.hex()}"
    return f


def case_b64_invalid(text: bytes) -> dict:
    """text contains a non-alphabet byte (not a trailing '=') or has length = 1 mod 4."""
    from joserfc.util import urlsafe_b64decode, json_b64decode
    f = {}
    # the same text where a header segment is expected: the codec's refusal (a ValueError) is what the caller gets
    try:
        r2 = json_b64decode(text)
        f["C19:json-decode-accepts-invalid-base64url"] = f"json_b64decode({text!r}) returned {r2!r}"
    except ValueError:
        pass
    except Exception as e:
        f["C19:json-decode-invalid-wrong-exception"] = f"json_b64decode({text!r}) raised {type(e).__name__} instead of a ValueError"
    try:
        r = urlsafe_b64decode(text)
    except ValueError:
        return f
    except Exception as e:
        return {**f, "C19:b64decode-invalid-wrong-exception":
                f"decode({text!r}) raised {type(e).__name__} instead of a ValueError"}
    return {**f, "C19:b64decode-accepts-invalid": f"decode({text!r}) returned {r!r} instead of raising ValueError"}


def case_b64_valid_decode(text: bytes) -> dict:
    """text is over the alphabet with a possible length: decoding must agree with the reference."""
    from joserfc.util import urlsafe_b64decode
    want = rb.decode(text)
    try:
        got = urlsafe_b64decode(text)
    except Exception as e:
        if rb.canonical(text.decode()):
            return {"C19:b64decode-rejects-valid": f"decode({text!r}) raised {type(e).__name__}: {e}"}
        return {}
    if got != want:
        return {"C19:b64decode-differs-from-reference": f"decode({text!r}) = {got.hex()}, reference {want.hex()}"}
    return {}


def case_int(n: int) -> dict:
    from joserfc.util import int_to_base64, base64_to_int
    f = {}
    if n < 0:
        try:
            r = int_to_base64(n)
        except ValueError:
            return f
        except Exception as e:
            return {"C19:int-negative-wrong-exception": f"int_to_base64({n}) raised {type(e).__name__}"}
        return {"C19:int-negative-accepted": f"int_to_base64({n}) returned {r!r}"}
    try:
        s = int_to_base64(n)
    except Exception as e:      # every non-negative integer has an encoding
        return {f"C19:int-encode-raises:{type(e).__name__}": f"int_to_base64({n}) raised {type(e).__name__}: {e}"}
    if not isinstance(s, str) or not _RE.match(s.encode()):
        f["C19:int-encoding-alphabet"] = f"int_to_base64({n}) = {s!r}"
        return f
    if s != rb.int_to_b64(n):
        raw = rb.decode(s)
        why = "leading zero octet" if raw[:1] == b"\x00" else "differs"
        f["C19:int-encoding-not-minimal"] = f"int_to_base64({n}) = {s!r} ({why}); minimal is {rb.int_to_b64(n)!r}"
    try:
        back = base64_to_int(s)
    except Exception as e:
        f["C19:int-roundtrip-raises"] = f"base64_to_int(int_to_base64({n})) raised {type(e).__name__}: {e}"
    else:
        if back != n:
            f["C19:int-roundtrip-lossy"] = f"base64_to_int(int_to_base64({n})) = {back}"
    # decoding the reference's (minimal) encoding must give n as well
    try:
        if base64_to_int(rb.int_to_b64(n)) != n:
            f["C19:int-decode-differs-from-reference"] = f"base64_to_int({rb.int_to_b64(n)!r}) != {n}"
    except Exception as e:
        f["C19:int-decode-raises"] = f"base64_to_int({rb.int_to_b64(n)!r}) raised {type(e).__name__}"
    # the integer decoder is the same strict base64url decoder: a foreign character anywhere in the text is refused
    good = rb.int_to_b64(n)
    pos = n % (len(good) + 1)
    for junk in (" ", "\n", "+", "/", "!", ".", "*", "=", "\t", "é"):
        bad = good[:pos] + junk + good[pos:]
        if junk == "=" and pos == len(good):
            continue      # trailing padding is tolerated by the statement
        try:
            r = base64_to_int(bad)
        except ValueError:
            continue
        except Exception as e:
            f["C19:int-decode-invalid-wrong-exception"] = f"base64_to_int({bad!r}) raised {type(e).__name__} instead of a ValueError"
            continue
        f["C19:int-decode-accepts-invalid"] = f"base64_to_int({bad!r}) returned {r} instead of raising ValueError"
    return f


def case_fixedint(n: int, bits: int) -> dict:
    from joserfc.rfc7518.util import encode_int, decode_int
    f = {}
    want_len = (bits + 7) // 8
    b = encode_int(n, bits)
    if not isinstance(b, bytes) or len(b) != want_len or b != n.to_bytes(want_len, "big"):
        f["C19:encode_int-fixed-length"] = f"encode_int({n}, {bits}) = {b!r}; expected {want_len} big-endian octets"
    try:
        if decode_int(n.to_bytes(want_len, "big")) != n:
            f["C19:decode_int-lossy"] = f"decode_int of {want_len}-octet encoding of {n} differs"
    except Exception as e:
        f["C19:decode_int-raises"] = f"decode_int raised {type(e).__name__}: {e}"
    return f


def case_json(obj) -> dict:
    from joserfc.util import json_b64encode, json_b64decode
    f = {}
    try:
        seg = json_b64encode(obj)
    except Exception as e:
        return {f"C19:json-encode-raises:{type(e).__name__}": f"json_b64encode({obj!r}) raised {type(e).__name__}: {e}"}
    if not isinstance(seg, bytes) or not _RE.match(seg):
        f["C19:json-segment-alphabet"] = f"json_b64encode gave {seg!r}"
        return f
    try:
        text = rb.decode(seg).decode("utf-8")
        via_ref = json.loads(text)
    except Exception as e:
        f["C19:json-segment-not-json"] = f"segment does not hold UTF-8 JSON: {type(e).__name__}: {e}"
        return f
    try:
        back = json_b64decode(seg)
    except Exception as e:
        return {f"C19:json-decode-raises:{type(e).__name__}": f"json_b64decode of the encoding of {obj!r} raised {type(e).__name__}: {e}"}
    if back != obj or via_ref != obj or not _same_types(back, obj):
        f["C19:json-roundtrip-lossy"] = f"json_b64decode(json_b64encode(h)) = {back!r} for h = {obj!r}"
    # the decoded object belongs to the caller: editing it must not change what the same segment decodes to next time
    if isinstance(back, dict):
        back["x-edited"] = [1]
        for v in back.values():
            if isinstance(v, list):
                v.append("edited")
            elif isinstance(v, dict):
                v["x-edited"] = 1
    elif isinstance(back, list):
        back.append("edited")
    if isinstance(back, (dict, list)):
        again = json_b64decode(seg)
        if again != obj or not _same_types(again, obj):
            f["C19:json-decode-depends-on-earlier-result"] = f"second json_b64decode of the same segment gave {again!r}; encoded object {obj!r}"
    return f


def _same_types(a, b) -> bool:
    if isinstance(a, dict) and isinstance(b, dict):
        return a.keys() == b.keys() and all(_same_types(a[k], b[k]) for k in a)
    if isinstance(a, list) and isinstance(b, list):
        return len(a) == len(b) and all(_same_types(x, y) for x, y in zip(a, b))
    if isinstance(a, bool) or isinstance(b, bool):
        return type(a) is type(b)
    if isinstance(a, float) and isinstance(b, float):
        return a == b or (math.isnan(a) and math.isnan(b))
    return type(a) is type(b) and a == b


# ---------------------------------------------------------------- shards
def _record(ctx, kind, findings, record):
    for k, w in findings.items():
        ctx.finding(k, w, record)


def run_shard(ctx, spec):
    part = spec["part"]
    if part == "atheris":
        import sys as _sys
        from harness.ath import run_atheris
        run_atheris(ctx, "C19", spec["seconds"], _sys.modules[__name__])
        return
    if part == "exhaustive":
        i, n = spec["i"], spec["n"]
        idx = 0
        for ln in (0, 1, 2):
            for tup in itertools.product(range(256), repeat=ln):
                idx += 1
                if idx % n != i:
                    continue
                data = bytes(tup)
                f = case_b64_roundtrip(data)
                ctx.case(("rt", data.hex()), nontrivial=ln > 0, cls="b64:roundtrip",
                         sample={"fn": "b64-roundtrip", "data_hex": data.hex()} if idx % 20011 == 0 else None)
                _record(ctx, "rt", f, {"kind": "b64rt", "data_hex": data.hex()})
        # all valid encodings of length 2 and 3 over the alphabet decode like the reference (incl. non-canonical)
        if i == 0:
            for ln in (2, 3):
                for tup in itertools.product(ALPHA, repeat=ln):
                    t = bytes(tup)
                    f = case_b64_valid_decode(t)
                    ctx.case(("vd", t), cls="b64:decode-vs-reference")
                    _record(ctx, "vd", f, {"kind": "b64valid", "text": t.decode()})
    elif part == "random":
        big = st.one_of(st.binary(min_size=3, max_size=64), st.binary(min_size=3, max_size=4096))

        def body(data):
            f = case_b64_roundtrip(data)
            ctx.case(("rt", data.hex()), cls=["b64:roundtrip", f"b64:len%3={len(data) % 3}"],
                     sample={"fn": "b64-roundtrip", "data_hex": data.hex()[:80], "len": len(data)})
            _record(ctx, "rt", f, {"kind": "b64rt", "data_hex": data.hex()})
            t = rb.encode(data).encode()
            f = case_b64_valid_decode(t)
            ctx.case(("vd", t), cls="b64:decode-vs-reference")
            _record(ctx, "vd", f, {"kind": "b64valid", "text": t.decode()})
        drive(ctx, "random", big, body, 3000 if ctx.tier == "quick" else 40000)
        # long octet strings (payloads, ciphertexts): lengths around the buffer sizes an implementation may work in
        import hashlib as _hl
        for n in sorted({b + d for b in (4096, 8192, 16384, 65536, 3 * 8192, 100000) for d in (-2, -1, 0, 1, 2, 3)} | {20000, 250000}):
            data = (_hl.sha512(b"%d" % n).digest() * (n // 64 + 1))[:n]
            f = case_b64_roundtrip(data)
            ctx.case(("rt-long", n), cls=["b64:roundtrip", "b64:long"], sample={"fn": "b64-roundtrip", "len": n})
            for k, w in f.items():
                ctx.finding(k, w[:300], {"kind": "b64rt-long", "n": n})
    elif part == "invalid":
        valid = st.text(alphabet=rb.ALPHABET, min_size=0, max_size=12)

        def body(v):
            v = v.encode()
            # every non-alphabet byte at every position ('=' only when something follows it)
            for pos in range(len(v) + 1):
                for b in NON_ALPHA:
                    t = v[:pos] + bytes([b]) + v[pos:]
                    if b == 0x3D and t.rstrip(b"=") .find(b"=") < 0:
                        ctx.dontcare("trailing-=")
                        continue
                    f = case_b64_invalid(t)
                    ctx.case(("inv", b, pos, len(v) % 4), cls="b64:invalid-char-rejected")
                    _record(ctx, "inv", f, {"kind": "b64invalid", "text_hex": t.hex()})
            if len(v) % 4 == 1:
                f = case_b64_invalid(v)
                ctx.case(("len", v), cls="b64:impossible-length-rejected", sample={"fn": "b64-invalid-length", "text": v.decode()})
                _record(ctx, "len", f, {"kind": "b64invalid", "text_hex": v.hex()})
            elif len(v) % 4 in (2, 3) or v:
                f = case_b64_valid_decode(v)
                ctx.case(("vd", v), cls="b64:decode-vs-reference" + ("" if rb.canonical(v.decode()) else ":noncanonical"))
                _record(ctx, "vd", f, {"kind": "b64valid", "text": v.decode()})
        drive(ctx, "invalid", valid, body, 40 if ctx.tier == "quick" else 400)
        # a foreign character followed by what some other transport encoding would read as an escape of an alphabet character or of
        # '=' (percent escapes, backslash escapes, entities): still a foreign character
        for prefix in (b"", b"QU", b"QUJD", b"QUJDR"):
            for esc in [b"%%%02X" % c for c in (0x41, 0x4A, 0x51, 0x61, 0x7A, 0x30, 0x39, 0x2D, 0x5F, 0x3D)] + [b"%4a", b"%3d", b"%3D%3D", b"\\x41", b"&#65;", b"%2D", b"%5f"]:
                for suffix in (b"", b"D", b"JD", b"UJD"):
                    t = prefix + esc + suffix
                    f = case_b64_invalid(t)
                    ctx.case(("esc", t), cls="b64:invalid-char-rejected")
                    _record(ctx, "esc", f, {"kind": "b64invalid", "text_hex": t.hex()})
        ctx.samples.append({"fn": "b64-invalid", "example": "each of 192 non-alphabet bytes at each position of a generated valid encoding"})
    elif part == "ints":
        around = st.builds(lambda k, d: 256 ** k + d, st.integers(0, 512), st.sampled_from([-1, 0, 1, 2, 255]))
        uni = st.integers(1, 2 ** 4096)
        small = st.integers(1, 2 ** 64)
        neg = st.integers(-2 ** 300, -1)

        def body(n):
            if n == 0:
                ctx.dontcare("int-zero")
                return
            f = case_int(n)
            ctx.case(("int", n), cls="int:negative" if n < 0 else "int:roundtrip",
                     sample={"fn": "int", "n_bits": n.bit_length(), "n": str(n)[:60]})
            _record(ctx, "int", f, {"kind": "int", "n": str(n)})
        drive(ctx, "ints", st.one_of(around, uni, small, neg), body, 6000 if ctx.tier == "quick" else 60000)
        # the integers of real keys as the library writes them into a JWK: every RSA member in minimal form, whatever its size
        # relative to the modulus or the primes (keys come from PEM, so the library does the encoding)
        from gens import keys as _gk, pem as _gpem
        from joserfc.jwk import RSAKey
        for k in _gk.rsa_pool():
            refk = {a: b for a, b in k.items() if a != "bits"}
            d = RSAKey.import_key(_gpem.to_pem(refk, True)).as_dict(private=True)
            for m in ("n", "e", "d", "p", "q", "dp", "dq", "qi"):
                ctx.case(("jwk-int", k["bits"], m, refk["n"] % 1000), cls="int:jwk-member")
                if d.get(m) != rb.int_to_b64(refk[m]):
                    raw = rb.decode(d[m]) if isinstance(d.get(m), str) else b""
                    ctx.finding("C19:jwk-integer-not-minimal", f"RSA member {m} of a {k['bits']}-bit key is exported as {len(raw)} octets"
                                f"{' with a leading zero octet' if raw[:1] == b'\x00' else ''}; minimal form has {len(rb.decode(rb.int_to_b64(refk[m])))}",
                                {"kind": "jwk-int", "bits": k["bits"], "member": m})
        # EC keys: x, y and d at exactly the width of the curve (leading zero octets kept), for scalars that give short coordinates too
        from joserfc.jwk import ECKey
        from ref.ec import CURVES as _CV
        import hashlib as _hl
        for crv in ("P-256", "P-384", "P-521", "secp256k1"):
            ds = [int(v, 16) for v in _gk.pool()["EC_special"].get(crv, {}).values()] + \
                 [int.from_bytes(_hl.sha512(b"%s/%d" % (crv.encode(), i)).digest() * 2, "big") % (_CV[crv].n - 1) + 1 for i in range(12)]
            for dval in ds:
                refk = _gk.ec_from_d(crv, dval)
                for private in (True, False):
                    ctx.case(("jwk-ec", crv, dval % 10**6, private), cls="int:jwk-member")
                    try:
                        d = ECKey.import_key(_gpem.to_pem(refk, private)).as_dict()
                        bad = [m for m in ("x", "y") + (("d",) if private else ()) if d.get(m) != rb.encode(refk[m].to_bytes(_CV[crv].size if m != "d" else _CV[crv].nsize, "big"))]
                    except Exception as e:
                        bad = [f"{type(e).__name__}: {e}"]
                    if bad:
                        ctx.finding("C19:jwk-ec-member-not-full-width", f"{crv} key read from PEM ({'private' if private else 'public'}): exported member(s) {bad} are not the "
                                    f"{_CV[crv].size}-octet big-endian form", {"kind": "jwk-ec", "crv": crv, "d": str(dval), "private": private})
    elif part == "fixedint":
        def body(c):
            bits, n = c
            f = case_fixedint(n, bits)
            lead = (bits + 7) // 8 - (n.bit_length() + 7) // 8
            ctx.case(("fx", bits, n), cls=["fixedint", f"fixedint:leading-zero-octets={min(lead, 3)}"],
                     sample={"fn": "encode_int", "bits": bits, "n": str(n)[:50]})
            _record(ctx, "fx", f, {"kind": "fixedint", "bits": bits, "n": str(n)})
        strat = st.sampled_from([64, 256, 384, 521]).flatmap(
            lambda bits: st.tuples(st.just(bits), st.one_of(
                st.integers(0, 2 ** bits - 1),
                st.integers(0, 2 ** max(bits - 8, 1)), st.integers(0, 2 ** max(bits - 17, 1)), st.integers(0, 300))))
        drive(ctx, "fixedint", strat, body, 4000 if ctx.tier == "quick" else 40000)
    elif part == "json":
        def body(h):
            f = case_json(h)
            ctx.case(("json", json.dumps(h, sort_keys=True)), nontrivial=bool(h), cls="json:roundtrip", sample={"fn": "json", "h": h})
            _record(ctx, "json", f, {"kind": "json", "h": h})
        # headers that are wide rather than deep (many sibling objects / arrays), strings full of brackets and quotes, long member lists
        wide = st.one_of(
            st.integers(2, 300).map(lambda n: {"alg": "HS256", "keys": [{"i": i} for i in range(n)]}),
            st.integers(2, 300).map(lambda n: {"alg": "HS256", "grid": [[i] for i in range(n)]}),
            st.integers(1, 200).map(lambda n: {"alg": "HS256", "note": "[" * n + "{" * n + '"' * (n % 7)}),
            st.integers(2, 400).map(lambda n: {f"m{i}": i for i in range(n)}))
        drive(ctx, "json", st.one_of(json_object(10, 6), json_object(10, 6), json_object(10, 6), wide), body, 1500 if ctx.tier == "quick" else 15000)
    else:
        raise ValueError(part)


def replay(rec) -> dict:
    k = rec["kind"]
    if k == "jwk-int":
        from gens.jose import setup_joserfc
        setup_joserfc()
        from gens import keys as _gk, pem as _gpem
        from joserfc.jwk import RSAKey
        for kk in _gk.rsa_pool():
            if kk["bits"] != rec["bits"]:
                continue
            refk = {a: b for a, b in kk.items() if a != "bits"}
            d = RSAKey.import_key(_gpem.to_pem(refk, True)).as_dict(private=True)
            if d.get(rec["member"]) != rb.int_to_b64(refk[rec["member"]]):
                return {"C19:jwk-integer-not-minimal": f"member {rec['member']} of a {rec['bits']}-bit key"}
        return {}
    if k == "jwk-ec":
        from gens.jose import setup_joserfc
        setup_joserfc()
        from gens import keys as _gk, pem as _gpem
        from joserfc.jwk import ECKey
        from ref.ec import CURVES as _CV
        refk = _gk.ec_from_d(rec["crv"], int(rec["d"]))
        c = _CV[rec["crv"]]
        try:
            d = ECKey.import_key(_gpem.to_pem(refk, rec["private"])).as_dict()
            bad = [m for m in ("x", "y") + (("d",) if rec["private"] else ()) if d.get(m) != rb.encode(refk[m].to_bytes(c.size if m != "d" else c.nsize, "big"))]
        except Exception as e:
            bad = [type(e).__name__]
        return {"C19:jwk-ec-member-not-full-width": f"{rec['crv']}: {bad}"} if bad else {}
    if k == "b64any":
        import re as _re
        t = bytes.fromhex(rec["text_hex"])
        if _re.fullmatch(rb"[A-Za-z0-9_-]*", t) and len(t) % 4 != 1:
            return case_b64_valid_decode(t)
        if t.rstrip(b"=") != t and _re.fullmatch(rb"[A-Za-z0-9_-]*", t.rstrip(b"=")):
            return {}
        return case_b64_invalid(t)
    if k == "b64rt-long":
        import hashlib as _hl
        n = rec["n"]
        return {a: b[:300] for a, b in case_b64_roundtrip((_hl.sha512(b"%d" % n).digest() * (n // 64 + 1))[:n]).items()}
    if k == "b64rt":
        return case_b64_roundtrip(bytes.fromhex(rec["data_hex"]))
    if k == "b64invalid":
        return case_b64_invalid(bytes.fromhex(rec["text_hex"]))
    if k == "b64valid":
        return case_b64_valid_decode(rec["text"].encode())
    if k == "int":
        return case_int(int(rec["n"]))
    if k == "fixedint":
        return case_fixedint(int(rec["n"]), rec["bits"])
    if k == "json":
        return case_json(rec["h"])
    raise ValueError(k)
