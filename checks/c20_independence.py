"""C20 - calls sharing keys, key sets and registries are independent and thread-safe.

(a) harness-owned schedules: two operations run in two threads over shared, freshly built objects; a sys.settrace tracer yields to a
    central scheduler at every line executed inside joserfc, so exactly one thread runs at a time and the interleaving is the
    generated schedule (all 1-preemption schedules of each ordered pair of a core set; 2-3 preemptions sampled).
(b) histories: generated call sequences on one shared object graph; every outcome is compared with the same call on a private copy.
(c) stress: many threads under a tiny switch interval (non-deterministic supplement).
Oracle: every call's outcome equals its outcome in isolation; shared key sets still give every key a kid equal to its thumbprint.
"""
from __future__ import annotations
import copy
import json
from collections import Counter
import sys
import threading
import time
import warnings

from hypothesis import strategies as st

from harness.core import HarnessError, REPO
from harness.hyp import drive
from gens import keys as gk, pem as gpem, jweplan
from gens.jose import ALL_JWS
from ref import jws as rjws, jwe as rjwe, b64 as rb, keys as rk, selftest

LEVEL = "exploration"
RULE = ("(a) operations from a pool of 76 (sign/verify HS256 with two different keys, ES256, EdDSA, RS256 compact and JSON, key-set signing "
        "with random pick, A128KW / ECDH-ES / dir encrypt and decrypt, jwt encode/decode, thumbprint, ensure_kid, KeySet([...]), "
        "KeySet.as_dict, public export, PEM export, per-call allow-lists, caller registries, PBES2 with the right / a wrong password, CBC-HS / ChaCha20 / GCMKW / ECDH-1PU messages, compressed (DEF) messages with two different plaintexts, keys carrying use / key_ops) run pairwise in two threads over shared Key / KeySet / registry objects rebuilt from "
        "stored material for every schedule (lazy initialisation is raced every time); the tracer switches threads only at the "
        "generated line positions: every single-preemption schedule (A runs i lines, B runs to completion, A resumes) for every ordered "
        "pair of the quick core set, 2-3 preemption schedules sampled by Hypothesis. (b) Hypothesis-generated sequences of 2-12 "
        "operations on one shared graph, each outcome compared with the isolated outcome. (c) 8-24 threads x mixed operations under "
        "sys.setswitchinterval(1e-6). Oracle: same accept/reject and exception class, same recovered content, produced tokens valid "
        "under the reference and under the right key only, every key of a shared set has kid == thumbprint afterwards, and both calls repeated after the interleaving still behave as in isolation. non-trivial: a "
        "schedule with an actual context switch inside a joserfc frame; distinct = (op A, op B, schedule).")
ASSUMPTIONS = ["interleavings are explored at Python line granularity inside joserfc; races inside C extensions (OpenSSL, pycryptodome) and free-threaded builds are out of reach",
               "the stress part is non-deterministic: it can only add findings, the deciding evidence is (a) and (b)"]
BUDGET_S = {"quick": 85, "thorough": 1500}
FLOORS = {"quick": {"schedules": 8000, "schedules:switched": 6000, "history-steps": 1500, "stress-ops": 300}, "thorough": {"schedules": 100000}}
EXHAUSTIVE = {"quick": False, "thorough": False}

SRC = None

# ------------------------------------------------------------------ stored material and pre-minted tokens
M = {}


def preimport():
    """Every joserfc module is imported before anything is scheduled: a first import inside a traced thread would hold the
    module's import lock across a forced switch and dead-lock the other thread on it (a harness artefact, not a race)."""
    import importlib
    import pkgutil
    import joserfc
    for mod in pkgutil.walk_packages(joserfc.__path__, "joserfc."):
        importlib.import_module(mod.name)


ZIP_TEXT_A = b"secret text " * 40
ZIP_TEXT_B = b"another message, longer than the first one; " * 55


def material():
    if M:
        return M
    preimport()
    ref = {
        "oct1": {"kty": "oct", "k": bytes(range(32))}, "oct2": {"kty": "oct", "k": bytes(range(100, 132))}, "oct16": {"kty": "oct", "k": bytes(range(16))},
        "ec": gk.ec_from_d("P-256", 0xC0FFEE1234567), "ec2": gk.ec_from_d("P-256", 0xBADC0DE7654321), "ed": gk.okp_from_seed("Ed25519", bytes(range(32))),
        "rsa": {k: v for k, v in gk.rsa_pool()[2].items() if k != "bits"},
    }
    M["ref"] = ref
    M["pem"] = {n: gpem.to_pem(k, True) for n, k in ref.items() if k["kty"] != "oct"}
    M["jwk"] = {n: rk.export_jwk(k) for n, k in ref.items()}
    M["tp"] = {n: rk.thumbprint(k) for n, k in ref.items()}
    tok = {}
    tok["hs_k1"] = rjws.make_compact(b'{"alg":"HS256"}', b"payload-1", "HS256", ref["oct1"])
    tok["hs_k2"] = rjws.make_compact(b'{"alg":"HS256"}', b"payload-2", "HS256", ref["oct2"])
    tok["es"] = rjws.make_compact(b'{"alg":"ES256"}', b"payload-es", "ES256", ref["ec"])
    tok["es_kid"] = rjws.make_compact(json.dumps({"alg": "ES256", "kid": M["tp"]["ec"]}).encode(), b"payload-kid", "ES256", ref["ec"])
    tok["es2_kid"] = rjws.make_compact(json.dumps({"alg": "ES256", "kid": M["tp"]["ec2"]}).encode(), b"payload-kid-ec2", "ES256", ref["ec2"])
    tok["hs2_kid"] = rjws.make_compact(json.dumps({"alg": "HS256", "kid": M["tp"]["oct2"]}).encode(), b"payload-kid-oct2", "HS256", ref["oct2"])
    tok["ed"] = rjws.make_compact(b'{"alg":"EdDSA"}', b"payload-ed", "EdDSA", ref["ed"])
    tok["rs"] = rjws.make_compact(b'{"alg":"RS256"}', b"payload-rs", "RS256", ref["rsa"])
    tok["hs512"] = rjws.make_compact(b'{"alg":"HS512"}', b"payload-512", "HS512", ref["oct1"])
    tok["jwt"] = rjws.make_compact(b'{"alg":"HS256","typ":"JWT"}', b'{"sub":"alice","n":1}', "HS256", ref["oct1"])

    def jwe_tok(alg, keyname, enc="A128GCM", text=b"secret text", sender=None, zipv=None):
        protected = {"alg": alg, "enc": enc}
        if zipv:
            protected["zip"] = zipv
        plan = {"ser": "compact", "enc": enc, "zip": zipv, "plaintext_hex": text.hex(), "aad_hex": None, "protected": protected, "unprotected": None,
                "recipients": [{"alg": alg, "key": gk.key_to_record(ref[keyname]), "header": None, "kid": None}],
                "sender": gk.key_to_record(ref[sender]) if sender else None, "place": "protected"}
        return jweplan.ref_encrypt(plan, 7, ("canonical", 0))[0]
    tok["kw"] = jwe_tok("A128KW", "oct16")
    tok["dir"] = jwe_tok("dir", "oct16")
    tok["ecdh"] = jwe_tok("ECDH-ES", "ec")
    tok["pbes2"] = jwe_tok("PBES2-HS256+A128KW", "oct1")
    tok["kw_cbc"] = jwe_tok("A128KW", "oct16", "A128CBC-HS256")
    tok["kw_c20p"] = jwe_tok("A128KW", "oct16", "C20P")
    # second messages with other content under the same keys: a call that returns the other call's data must be visible
    tok["gcmkw"] = jwe_tok("A128GCMKW", "oct16")
    tok["1pu_kw"] = jwe_tok("ECDH-1PU+A128KW", "ec", "A128CBC-HS256", sender="ec2")
    tok["1pu_kw_b"] = jwe_tok("ECDH-1PU+A128KW", "ec", "A128CBC-HS256", b"another message, longer than the first one", sender="ec2")
    tok["kw_b"] = jwe_tok("A128KW", "oct16", "A128GCM", b"another message, longer than the first one")
    tok["kw_cbc_b"] = jwe_tok("A128KW", "oct16", "A128CBC-HS256", b"another message, longer than the first one")
    tok["kw_c20p_b"] = jwe_tok("A128KW", "oct16", "C20P", b"another message, longer than the first one")
    # compressed messages: whatever the library keeps per "zip" algorithm between calls is shared
    tok["kw_zip"] = jwe_tok("A128KW", "oct16", "A128GCM", ZIP_TEXT_A, zipv="DEF")
    tok["kw_zip_b"] = jwe_tok("A128KW", "oct16", "A128GCM", ZIP_TEXT_B, zipv="DEF")
    M["tok"] = tok
    return M


class Graph:
    """Shared objects, rebuilt from stored material (so lazily initialised state is fresh). Only the objects the operations need are
    built (an RSA PEM import costs 50 ms of key checking)."""

    ALL = ("oct1", "oct2", "oct16", "ec", "ec2", "ed", "rsa", "ecpub", "ks", "reg_jws", "reg_jwe", "reg_jwe2", "ec_sig", "pp_a", "pp_b")

    def __init__(self, needs=None):
        from joserfc.jwk import OctKey, ECKey, OKPKey, RSAKey, KeySet
        from joserfc import jws, jwe
        m = material()
        needs = set(needs or self.ALL)
        self.built = sorted(needs)
        self.made_sets = []
        with warnings.catch_warnings():
            warnings.simplefilter("ignore")
            for n in ("oct1", "oct2", "oct16"):
                if n in needs:
                    setattr(self, n, OctKey.import_key(m["ref"][n]["k"]))
        if "ec" in needs:
            self.ec = ECKey.import_key(m["pem"]["ec"])            # no dict yet: built lazily on first use
        if "ec2" in needs:
            self.ec2 = ECKey.import_key(m["jwk"]["ec2"])
        if "ec_sig" in needs:
            # from PEM with extra parameters: the JWK dict (incl. use / key_ops / kid) is only built on first use
            self.ec_sig = ECKey.import_key(m["pem"]["ec"], {"use": "sig", "key_ops": ["sign", "verify"], "kid": "sig-key-1"})
        if "ed" in needs:
            self.ed = OKPKey.import_key(m["pem"]["ed"])
        # two keys made with ONE parameters dict object (an application constant): what happens to one key is not the other's business
        pp = {"use": "sig"}
        if "pp_a" in needs:
            self.pp_a = ECKey.import_key(m["pem"]["ec2"], pp)
        if "pp_b" in needs:
            self.pp_b = OKPKey.import_key(m["pem"]["ed"], pp)
        if "rsa" in needs:
            self.rsa = RSAKey.import_key(m["pem"]["rsa"])
        if "ecpub" in needs:
            self.ecpub = ECKey.import_key(gpem.to_pem(rk.public_of(m["ref"]["ec"]), False))
        if "ks" in needs:
            self.ks = KeySet([ECKey.import_key(m["pem"]["ec2"]), OctKey.import_key(m["jwk"]["oct2"])])
        if "reg_jws" in needs:
            self.reg_jws = jws.JWSRegistry(algorithms=["HS256", "ES256", "EdDSA", "RS256"])
        if "reg_jwe" in needs:
            self.reg_jwe = jwe.JWERegistry(algorithms=["A128KW", "dir", "ECDH-ES", "A128GCM"])
        if "reg_jwe2" in needs:
            # one long-lived registry for algorithm families that each define header parameters of their own
            self.reg_jwe2 = jwe.JWERegistry(algorithms=["ECDH-ES", "PBES2-HS256+A128KW", "A128GCMKW", "A128GCM"])


_NEEDS = {}


def needs(*names):
    import inspect
    import re
    out = set()
    for n in names:
        if n not in _NEEDS:
            _NEEDS[n] = set(re.findall(r"G\.(\w+)", inspect.getsource(OPS[n]))) - {"made_sets"}
        out |= _NEEDS[n]
    return out


# ------------------------------------------------------------------ operations: op(G) -> outcome (JSON-able, deterministic in isolation)
def _ref_verify(tok, keyname, expect_payload):
    m = material()
    key = m["ref"][keyname]
    try:
        r = rjws.verify_compact(tok, lambda h: key if key["kty"] == "oct" else rk.public_of(key)) if isinstance(tok, str) else \
            rjws.verify_json(tok, lambda h: key if key["kty"] == "oct" else rk.public_of(key))
        return "valid" if r["payload"] == expect_payload else "wrong-payload"
    except rjws.Reject as e:
        return f"invalid({e})"


FRESH: list = []      # values of produced tokens that must be fresh per call (content IV, key-wrap IV, epk, PBES2 salt)


def _note_fresh(tok):
    try:
        segs = tok.split(".")
        h = json.loads(rb.decode(segs[0]))
        FRESH.append(("iv", segs[2]))
        for name in ("iv", "p2s"):
            if isinstance(h.get(name), str):
                FRESH.append((f"header-{name}", h[name]))
        if isinstance(h.get("epk"), dict):
            FRESH.append(("epk", str(h["epk"].get("x"))))
    except Exception:
        pass


def _fresh_repeats():
    seen, rep = set(), []
    for v in list(FRESH):
        if v in seen:
            rep.append(v)
        seen.add(v)
    return rep


def _ref_decrypt(tok, keyname, sender=None):
    m = material()
    _note_fresh(tok)
    try:
        r = rjwe.decrypt_compact(tok, lambda h: m["ref"][keyname], rk.public_of(m["ref"][sender]) if sender else None)
        return ["valid", r["plaintext"].decode(), tok.split(".")[2]]
    except rjwe.Reject as e:
        if "incomplete deflate stream" in str(e):
            # a compressed payload without a final block (the wire-format checks deal with that): the comparison with isolation still
            # needs to see WHAT the token holds, so the stream is inflated as far as it goes
            import zlib
            strict_inflate = rjwe.inflate
            rjwe.inflate = lambda data, limit=None, allow_zlib_header=False: zlib.decompressobj(-15).decompress(data)
            try:
                r = rjwe.decrypt_compact(tok, lambda h: m["ref"][keyname], rk.public_of(m["ref"][sender]) if sender else None)
                return ["valid-but-unterminated-stream", r["plaintext"].decode("utf-8", "replace"), tok.split(".")[2]]
            except rjwe.Reject as e2:
                return [f"invalid({e2})", "", ""]
            finally:
                rjwe.inflate = strict_inflate
        return [f"invalid({e})", "", ""]


def op_sign_hs_k1(G):
    from joserfc import jws
    return _ref_verify(jws.serialize_compact({"alg": "HS256"}, b"msg-k1", G.oct1), "oct1", b"msg-k1")


def op_sign_hs_k2(G):
    from joserfc import jws
    return _ref_verify(jws.serialize_compact({"alg": "HS256"}, b"msg-k2", G.oct2), "oct2", b"msg-k2")


def op_verify_hs_k1(G):
    from joserfc import jws
    return jws.deserialize_compact(material()["tok"]["hs_k1"], G.oct1).payload.decode()


def op_verify_hs_wrongkey(G):
    from joserfc import jws
    return jws.deserialize_compact(material()["tok"]["hs_k2"], G.oct1).payload.decode()


def op_verify_hs_k2(G):
    from joserfc import jws
    return jws.deserialize_compact(material()["tok"]["hs_k2"], G.oct2).payload.decode()


def op_sign_es(G):
    from joserfc import jws
    return _ref_verify(jws.serialize_compact({"alg": "ES256"}, b"msg-es", G.ec), "ec", b"msg-es")


def op_verify_es(G):
    from joserfc import jws
    return jws.deserialize_compact(material()["tok"]["es"], G.ecpub).payload.decode()


def op_verify_es_private_obj(G):
    from joserfc import jws
    return jws.deserialize_compact(material()["tok"]["es"], G.ec).payload.decode()


def op_sign_ed(G):
    from joserfc import jws
    return _ref_verify(jws.serialize_compact({"alg": "EdDSA"}, b"msg-ed", G.ed, registry=G.reg_jws), "ed", b"msg-ed")


def op_verify_rs(G):
    from joserfc import jws
    return jws.deserialize_compact(material()["tok"]["rs"], G.rsa, registry=G.reg_jws).payload.decode()


def op_sign_json_two(G):
    from joserfc import jws
    from joserfc.jwk import KeySet
    t = jws.serialize_json([{"protected": {"alg": "HS256"}}, {"protected": {"alg": "HS256"}, "header": {"x5t": "AA"}}], b"msg-json", G.oct1)
    return [_ref_verify(t, "oct1", b"msg-json"), len(t["signatures"])]


def op_keyset_new(G):
    from joserfc.jwk import KeySet
    ks = KeySet([G.ec, G.ed])
    G.made_sets.append(ks)          # "every key of a key set has a kid" must still hold when all calls are over
    return [k.kid for k in ks.keys]


def op_keyset_sign_pick(G):
    from joserfc import jws
    from joserfc.jwk import KeySet
    ks = KeySet([G.ec, G.oct2])
    t = jws.serialize_compact({"alg": "ES256"}, b"msg-pick", ks)
    hdr = json.loads(rb.decode(t.split(".")[0]))
    return [_ref_verify(t, "ec", b"msg-pick"), hdr.get("kid")]


def op_keyset_verify_kid(G):
    from joserfc import jws
    from joserfc.jwk import KeySet
    return jws.deserialize_compact(material()["tok"]["es_kid"], KeySet([G.ecpub, G.oct2])).payload.decode()


def op_shared_keyset_verify_ec(G):
    from joserfc import jws
    # the long-lived shared set resolves the key by the token's kid
    return jws.deserialize_compact(material()["tok"]["es2_kid"], G.ks, algorithms=["ES256", "HS256"]).payload.decode()


def op_shared_keyset_verify_oct(G):
    from joserfc import jws
    return jws.deserialize_compact(material()["tok"]["hs2_kid"], G.ks, algorithms=["ES256", "HS256"]).payload.decode()


def op_shared_keyset_dict(G):
    d = G.ks.as_dict(private=False)
    return [sorted(k.get("kid", "") for k in d["keys"]), sorted(set().union(*[set(k) for k in d["keys"]]))]


def op_shared_keyset_sign(G):
    from joserfc import jws
    t = jws.serialize_compact({"alg": "ES256"}, b"msg-shared", G.ks)
    hdr = json.loads(rb.decode(t.split(".")[0]))
    return [_ref_verify(t, "ec2", b"msg-shared"), hdr.get("kid")]


def op_thumbprint(G):
    return [G.ec.thumbprint(), G.ed.thumbprint(), G.oct1.thumbprint()]


def op_ensure_kid(G):
    G.ec.ensure_kid()
    return G.ec.kid


def op_export_public(G):
    d = G.ec.as_dict(private=False)
    # (a thumbprint kid may or may not have been assigned lazily by another call: documented, not part of the outcome)
    return [sorted(m for m in d if m != "kid"), d.get("x"), G.ed.as_dict(private=False).get("x")]


def op_export_pem(G):
    return [G.ec.as_pem(private=False).decode(), len(G.rsa.as_der(private=False))]


def op_encrypt_kw(G):
    from joserfc import jwe
    t = jwe.encrypt_compact({"alg": "A128KW", "enc": "A128GCM"}, b"secret text", G.oct16)
    r = _ref_decrypt(t, "oct16")
    return r[:2]


def op_decrypt_kw(G):
    from joserfc import jwe
    return jwe.decrypt_compact(material()["tok"]["kw"], G.oct16, registry=G.reg_jwe).plaintext.decode()


def op_decrypt_dir(G):
    from joserfc import jwe
    return jwe.decrypt_compact(material()["tok"]["dir"], G.oct16).plaintext.decode()


def op_encrypt_ecdh(G):
    from joserfc import jwe
    t = jwe.encrypt_compact({"alg": "ECDH-ES", "enc": "A128GCM"}, b"secret text", G.ecpub)
    return _ref_decrypt(t, "ec")[:2]


def op_decrypt_ecdh(G):
    from joserfc import jwe
    return jwe.decrypt_compact(material()["tok"]["ecdh"], G.ec).plaintext.decode()


def op_jwt_roundtrip(G):
    from joserfc import jwt
    t = jwt.encode({"alg": "HS256"}, {"sub": "bob", "k": [1, 2]}, G.oct1)
    return [_ref_verify(t, "oct1", b'{"sub":"bob","k":[1,2]}'), jwt.decode(material()["tok"]["jwt"], G.oct1).claims]


def op_verify_disallowed(G):
    from joserfc import jws
    return jws.deserialize_compact(material()["tok"]["ed"], G.ed).payload.decode()     # EdDSA is not allowed by default: must stay refused


def op_verify_ed_allowed(G):
    from joserfc import jws
    return jws.deserialize_compact(material()["tok"]["ed"], G.ed, algorithms=["EdDSA"]).payload.decode()


def op_verify_hs256_list(G):
    from joserfc import jws
    return jws.deserialize_compact(material()["tok"]["hs_k1"], G.oct1, algorithms=["HS256"]).payload.decode()


def op_verify_hs512_under_hs256_list(G):
    from joserfc import jws
    return jws.deserialize_compact(material()["tok"]["hs512"], G.oct1, algorithms=["HS256"]).payload.decode()     # not in the caller's list: refused


def op_verify_hs512_list(G):
    from joserfc import jws
    return jws.deserialize_compact(material()["tok"]["hs512"], G.oct1, algorithms=["HS512"]).payload.decode()


def op_sign_es_list(G):
    from joserfc import jws
    return _ref_verify(jws.serialize_compact({"alg": "ES256"}, b"msg-es-list", G.ec2, algorithms=["ES256", "ES384"]), "ec2", b"msg-es-list")


def op_reg2_ecdh_with_foreign_member(G):
    from joserfc import jwe
    # p2c belongs to PBES2: with ECDH-ES it is an unregistered member and the call fails, whatever else the shared registry is doing
    return _ref_decrypt(jwe.encrypt_compact({"alg": "ECDH-ES", "enc": "A128GCM", "p2c": 8}, b"secret text", G.ecpub, registry=G.reg_jwe2), "ec")[:2]


def op_reg2_pbes2(G):
    from joserfc import jwe
    return _ref_decrypt(jwe.encrypt_compact({"alg": "PBES2-HS256+A128KW", "enc": "A128GCM", "p2c": 8}, b"secret text", G.oct1, registry=G.reg_jwe2), "oct1")[:2]


def op_reg2_gcmkw_with_foreign_member(G):
    from joserfc import jwe
    return _ref_decrypt(jwe.encrypt_compact({"alg": "A128GCMKW", "enc": "A128GCM", "apu": "QWxpY2U"}, b"secret text", G.oct16, registry=G.reg_jwe2), "oct16")[:2]


def op_encrypt_pbes2(G):
    from joserfc import jwe
    t = jwe.encrypt_compact({"alg": "PBES2-HS256+A128KW", "enc": "A128GCM", "p2c": 8}, b"secret text", G.oct1, algorithms=["PBES2-HS256+A128KW", "A128GCM"])
    return _ref_decrypt(t, "oct1")[:2]


def op_decrypt_pbes2_right(G):
    from joserfc import jwe
    return jwe.decrypt_compact(material()["tok"]["pbes2"], G.oct1, algorithms=["PBES2-HS256+A128KW", "A128GCM"]).plaintext.decode()


def op_decrypt_pbes2_wrong(G):
    from joserfc import jwe
    return jwe.decrypt_compact(material()["tok"]["pbes2"], G.oct2, algorithms=["PBES2-HS256+A128KW", "A128GCM"]).plaintext.decode()   # other password: refused


def op_verify_hs_registry_and_list(G):
    from joserfc import jws
    # the caller passes its shared registry AND a narrower per-call list
    return jws.deserialize_compact(material()["tok"]["hs_k1"], G.oct1, algorithms=["HS256"], registry=G.reg_jws).payload.decode()


def op_verify_es_registry(G):
    from joserfc import jws
    return jws.deserialize_compact(material()["tok"]["es"], G.ecpub, registry=G.reg_jws).payload.decode()


def op_encrypt_kw_cbc(G):
    from joserfc import jwe
    return _ref_decrypt(jwe.encrypt_compact({"alg": "A128KW", "enc": "A128CBC-HS256"}, b"secret text", G.oct16), "oct16")[:2]


def op_decrypt_kw_cbc(G):
    from joserfc import jwe
    return jwe.decrypt_compact(material()["tok"]["kw_cbc"], G.oct16).plaintext.decode()


def op_encrypt_gcmkw(G):
    from joserfc import jwe
    return _ref_decrypt(jwe.encrypt_compact({"alg": "A128GCMKW", "enc": "A128GCM"}, b"secret text", G.oct16, algorithms=["A128GCMKW", "A128GCM"]), "oct16")[:2]


def op_decrypt_gcmkw(G):
    from joserfc import jwe
    return jwe.decrypt_compact(material()["tok"]["gcmkw"], G.oct16, algorithms=["A128GCMKW", "A128GCM"]).plaintext.decode()


def op_encrypt_1pu_kw(G):
    from joserfc import jwe
    t = jwe.encrypt_compact({"alg": "ECDH-1PU+A128KW", "enc": "A128CBC-HS256"}, b"secret text", G.ecpub, algorithms=["ECDH-1PU+A128KW", "A128CBC-HS256"], sender_key=G.ec2)
    return _ref_decrypt(t, "ec", "ec2")[:2]


def op_decrypt_1pu_kw(G):
    from joserfc import jwe
    return jwe.decrypt_compact(material()["tok"]["1pu_kw"], G.ec, algorithms=["ECDH-1PU+A128KW", "A128CBC-HS256"], sender_key=G.ec2).plaintext.decode()


def op_decrypt_1pu_kw_b(G):
    from joserfc import jwe
    return jwe.decrypt_compact(material()["tok"]["1pu_kw_b"], G.ec, algorithms=["ECDH-1PU+A128KW", "A128CBC-HS256"], sender_key=G.ec2).plaintext.decode()


def op_decrypt_kw_b(G):
    from joserfc import jwe
    return jwe.decrypt_compact(material()["tok"]["kw_b"], G.oct16).plaintext.decode()


def op_decrypt_kw_cbc_b(G):
    from joserfc import jwe
    return jwe.decrypt_compact(material()["tok"]["kw_cbc_b"], G.oct16).plaintext.decode()


def op_decrypt_kw_c20p_b(G):
    from joserfc import jwe
    return jwe.decrypt_compact(material()["tok"]["kw_c20p_b"], G.oct16, algorithms=["A128KW", "C20P"]).plaintext.decode()


def op_encrypt_kw_c20p(G):
    from joserfc import jwe
    return _ref_decrypt(jwe.encrypt_compact({"alg": "A128KW", "enc": "C20P"}, b"secret text", G.oct16, algorithms=["A128KW", "C20P"]), "oct16")[:2]


def op_decrypt_kw_c20p(G):
    from joserfc import jwe
    return jwe.decrypt_compact(material()["tok"]["kw_c20p"], G.oct16, algorithms=["A128KW", "C20P"]).plaintext.decode()


def op_read_kid(G):
    _ = (G.ec.kid, G.ed.kid, G.oct2.kid)     # merely looking at a key's kid (it may legitimately be None or the thumbprint by now)
    return "read"


def op_custom_registry_sign(G):
    from joserfc import jws
    from joserfc.registry import HeaderParameter
    reg = jws.JWSRegistry(header_registry={"custom": HeaderParameter("caller registered", "str")}, algorithms=["HS256"])
    return _ref_verify(jws.serialize_compact({"alg": "HS256", "custom": "v"}, b"msg-c", G.oct1, registry=reg), "oct1", b"msg-c")


def op_sign_unregistered_header(G):
    from joserfc import jws
    return jws.serialize_compact({"alg": "HS256", "custom": "v"}, b"msg-u", G.oct1)[:10]       # not registered here: must stay refused


def op_custom_jwe_registry(G):
    from joserfc import jwe
    from joserfc.registry import HeaderParameter
    reg = jwe.JWERegistry(header_registry={"custom": HeaderParameter("caller registered", "str")}, algorithms=["A128KW", "A128GCM"])
    t = jwe.encrypt_compact({"alg": "A128KW", "enc": "A128GCM", "custom": "v"}, b"secret text", G.oct16, registry=reg)
    return _ref_decrypt(t, "oct16")[:2]


def op_encrypt_unregistered_header(G):
    from joserfc import jwe
    return jwe.encrypt_compact({"alg": "A128KW", "enc": "A128GCM", "custom": "v"}, b"x", G.oct16)[:10]


def op_encrypt_kw_foreign_header(G):
    from joserfc import jwe
    # "apu"/"p2c" belong to other algorithms: with A128KW they are unregistered names and must stay refused, whatever ran before
    out = []
    for extra in ({"apu": "QQ"}, {"p2c": 1000}, {"epk": {"kty": "oct"}}):
        try:
            jwe.encrypt_compact({"alg": "A128KW", "enc": "A128GCM", **extra}, b"x", G.oct16)
            out.append("accepted")
        except Exception as e:
            out.append(type(e).__name__)
    return out


def op_decrypt_pbes2_default_registry(G):
    from joserfc import jwe
    # a non-recommended algorithm through the shared default registry: must stay refused
    return jwe.decrypt_compact(material()["tok"]["kw"].replace(material()["tok"]["kw"].split(".")[0], rb.encode(b'{"alg":"PBES2-HS256+A128KW","enc":"A128GCM","p2s":"AAAAAAAAAAA","p2c":8}')), G.oct16).plaintext.decode()


def op_sigkey_first_use_sign(G):
    from joserfc import jws
    return _ref_verify(jws.serialize_compact({"alg": "ES256"}, b"msg-sigkey", G.ec_sig), "ec", b"msg-sigkey")


def op_sigkey_encrypt_refused(G):
    from joserfc import jwe
    # the key declares use=sig: encryption with it must be refused also while another thread uses the key for the first time
    return jwe.encrypt_compact({"alg": "ECDH-ES", "enc": "A128GCM"}, b"x", G.ec_sig)[:8]


def op_sigkey_keyset(G):
    from joserfc.jwk import KeySet
    ks = KeySet([G.ec_sig])
    G.made_sets.append(ks)
    return [k.kid for k in ks.keys]


def op_sigkey_export(G):
    d = G.ec_sig.as_dict(private=False)
    return sorted(d.items())


def op_encrypt_kw_zip(G):
    from joserfc import jwe
    return _ref_decrypt(jwe.encrypt_compact({"alg": "A128KW", "enc": "A128GCM", "zip": "DEF"}, ZIP_TEXT_A, G.oct16), "oct16")[:2]


def op_encrypt_kw_zip_b(G):
    from joserfc import jwe
    return _ref_decrypt(jwe.encrypt_compact({"alg": "A128KW", "enc": "A128GCM", "zip": "DEF"}, ZIP_TEXT_B, G.oct16), "oct16")[:2]


def op_decrypt_kw_zip(G):
    from joserfc import jwe
    return jwe.decrypt_compact(material()["tok"]["kw_zip"], G.oct16).plaintext.decode()


def op_decrypt_kw_zip_b(G):
    from joserfc import jwe
    return jwe.decrypt_compact(material()["tok"]["kw_zip_b"], G.oct16).plaintext.decode()


def _ref_decrypt_json(tok, keyname):
    m = material()
    try:
        FRESH.append(("iv", tok.get("iv")))
        r = rjwe.decrypt_json(tok, lambda h: m["ref"][keyname])
        return ["valid", r["plaintext"].decode("utf-8", "replace")]
    except rjwe.Reject as e:
        return [f"invalid({e})", ""]
    except Exception as e:
        return [f"unreadable({type(e).__name__})", ""]


def op_encrypt_json_kw(G):
    from joserfc import jwe
    o = jwe.FlattenedJSONEncryption({"alg": "A128KW", "enc": "A128GCM"}, b"secret text", None, b"aad-1")
    o.add_recipient(None, G.oct16)
    return _ref_decrypt_json(jwe.encrypt_json(o, None), "oct16")


def op_encrypt_json_kw_b(G):
    from joserfc import jwe
    o = jwe.GeneralJSONEncryption({"enc": "A128GCM"}, b"another message, longer than the first one", {"cty": "text"})
    o.add_recipient({"alg": "A128KW"}, G.oct16)
    return _ref_decrypt_json(jwe.encrypt_json(o, None), "oct16")


def op_decrypt_c20p_list_and_registry(G):
    from joserfc import jwe
    # JWE: a list given next to a registry decides for this call
    return jwe.decrypt_compact(material()["tok"]["kw_c20p"], G.oct16, algorithms=["A128KW", "C20P"], registry=G.reg_jwe).plaintext.decode()


def op_decrypt_c20p_registry_only(G):
    from joserfc import jwe
    # C20P is not in the shared registry's list: refused
    return jwe.decrypt_compact(material()["tok"]["kw_c20p"], G.oct16, registry=G.reg_jwe).plaintext.decode()


def op_pp_kid_a(G):
    G.pp_a.ensure_kid()
    return [G.pp_a.kid, G.pp_a.kid == material()["tp"]["ec2"], G.pp_a.as_dict(private=False).get("kid")]


def op_pp_kid_b(G):
    G.pp_b.ensure_kid()
    return [G.pp_b.kid, G.pp_b.kid == material()["tp"]["ed"], G.pp_b.as_dict(private=False).get("kid")]


def op_pp_sign_b(G):
    from joserfc import jws
    from joserfc.jwk import KeySet
    t = jws.serialize_compact({"alg": "EdDSA"}, b"payload-ed", KeySet([G.pp_b]), algorithms=["EdDSA"])
    return [_ref_verify(t, "ed", b"payload-ed"), json.loads(rb.decode(t.split(".")[0])).get("kid") == material()["tp"]["ed"]]


OPS = {f.__name__[3:]: f for f in [
    op_reg2_ecdh_with_foreign_member, op_reg2_pbes2, op_reg2_gcmkw_with_foreign_member, op_encrypt_pbes2, op_shared_keyset_verify_ec, op_shared_keyset_verify_oct, op_pp_kid_a, op_pp_kid_b, op_pp_sign_b, op_encrypt_json_kw, op_encrypt_json_kw_b, op_decrypt_c20p_list_and_registry, op_decrypt_c20p_registry_only,
    op_encrypt_kw_zip, op_encrypt_kw_zip_b, op_decrypt_kw_zip, op_decrypt_kw_zip_b,
    op_encrypt_kw_foreign_header, op_decrypt_pbes2_default_registry, op_sigkey_first_use_sign, op_sigkey_encrypt_refused, op_sigkey_keyset, op_sigkey_export,
    op_read_kid, op_custom_registry_sign, op_sign_unregistered_header, op_custom_jwe_registry, op_encrypt_unregistered_header,
    op_sign_hs_k1, op_sign_hs_k2, op_verify_hs_k1, op_verify_hs_wrongkey, op_verify_hs_k2, op_sign_es, op_verify_es, op_verify_es_private_obj, op_sign_ed,
    op_verify_rs, op_sign_json_two, op_keyset_new, op_keyset_sign_pick, op_keyset_verify_kid, op_shared_keyset_dict, op_shared_keyset_sign, op_thumbprint,
    op_ensure_kid, op_export_public, op_export_pem, op_encrypt_kw, op_decrypt_kw, op_decrypt_dir, op_encrypt_ecdh, op_decrypt_ecdh, op_jwt_roundtrip,
    op_verify_disallowed, op_verify_ed_allowed, op_verify_hs256_list, op_verify_hs512_under_hs256_list, op_verify_hs512_list, op_sign_es_list,
    op_decrypt_pbes2_right, op_decrypt_pbes2_wrong, op_verify_hs_registry_and_list, op_verify_es_registry, op_encrypt_kw_cbc, op_decrypt_kw_cbc, op_encrypt_kw_c20p,
    op_decrypt_kw_c20p, op_decrypt_kw_b, op_decrypt_kw_cbc_b, op_decrypt_kw_c20p_b, op_encrypt_gcmkw, op_decrypt_gcmkw, op_encrypt_1pu_kw,
    op_decrypt_1pu_kw, op_decrypt_1pu_kw_b]}
# shared, lazily initialised objects an operation touches: pairs sharing one get every single-preemption schedule even in the quick tier
TOUCH = {"sigkey_first_use_sign": {"ec_sig"}, "sigkey_encrypt_refused": {"ec_sig"}, "sigkey_keyset": {"ec_sig"}, "sigkey_export": {"ec_sig"},
         "encrypt_kw_foreign_header": {"A128GCM", "A128KW"}, "read_kid": {"ec", "ed"}, "sign_es": {"ec"}, "verify_es_private_obj": {"ec"}, "keyset_new": {"ec", "ed"}, "keyset_sign_pick": {"ec", "oct2"}, "thumbprint": {"ec", "ed", "oct1"},
         "ensure_kid": {"ec"}, "export_public": {"ec", "ed"}, "decrypt_ecdh": {"ec"}, "sign_ed": {"ed"}, "export_pem": {"ec"},
         "sign_hs_k1": {"HS256"}, "sign_hs_k2": {"HS256"}, "verify_hs_k1": {"HS256"}, "verify_hs_wrongkey": {"HS256"}, "verify_hs_k2": {"HS256"}, "jwt_roundtrip": {"HS256"},
         "shared_keyset_sign": {"ks"}, "shared_keyset_dict": {"ks"}, "shared_keyset_verify_ec": {"ks"}, "shared_keyset_verify_oct": {"ks"},
         # shared built-in algorithm objects
         "encrypt_kw": {"A128GCM", "A128KW"}, "encrypt_ecdh": {"A128GCM"}, "decrypt_kw": {"A128GCM", "A128KW"}, "decrypt_dir": {"A128GCM"}, "decrypt_ecdh": {"A128GCM"},
         "custom_jwe_registry": {"A128GCM", "A128KW"}, "custom_registry_sign": {"HS256"}, "sign_unregistered_header": {"HS256"},
         # per-call allow-lists: whatever the library keeps between calls for them is shared
         "verify_ed_allowed": {"allow-list"}, "verify_hs256_list": {"allow-list"}, "verify_hs512_under_hs256_list": {"allow-list"}, "verify_hs512_list": {"allow-list"},
         "sign_es_list": {"allow-list"}, "decrypt_pbes2_right": {"PBES2"}, "decrypt_pbes2_wrong": {"PBES2"}, "encrypt_pbes2": {"PBES2", "A128GCM"},
         "reg2_ecdh_with_foreign_member": {"reg_jwe2"}, "reg2_pbes2": {"reg_jwe2"}, "reg2_gcmkw_with_foreign_member": {"reg_jwe2"},
         "verify_hs_registry_and_list": {"reg_jws"}, "verify_rs": {"reg_jws"}, "verify_es_registry": {"reg_jws"},
         "encrypt_kw_cbc": {"A128CBC-HS256", "A128KW"}, "decrypt_kw_cbc": {"A128CBC-HS256", "A128KW"},
         "encrypt_kw_c20p": {"C20P", "A128KW"}, "decrypt_kw_c20p": {"C20P", "A128KW"},
         "decrypt_kw_b": {"A128GCM", "A128KW"}, "decrypt_kw_cbc_b": {"A128CBC-HS256", "A128KW"}, "decrypt_kw_c20p_b": {"C20P", "A128KW"},
         "encrypt_gcmkw": {"A128GCMKW", "A128GCM"}, "decrypt_gcmkw": {"A128GCMKW", "A128GCM"},
         "encrypt_1pu_kw": {"ECDH-1PU+A128KW", "A128CBC-HS256"}, "decrypt_1pu_kw": {"ECDH-1PU+A128KW", "A128CBC-HS256"},
         "decrypt_1pu_kw_b": {"ECDH-1PU+A128KW", "A128CBC-HS256"},
         "encrypt_json_kw": {"json-enc", "A128GCM", "A128KW"}, "encrypt_json_kw_b": {"json-enc", "A128GCM", "A128KW"},
         "decrypt_c20p_list_and_registry": {"reg_jwe", "C20P"}, "decrypt_c20p_registry_only": {"reg_jwe", "C20P"},
         "pp_kid_a": {"pp"}, "pp_kid_b": {"pp"}, "pp_sign_b": {"pp"},
         "encrypt_kw_zip": {"DEF"}, "encrypt_kw_zip_b": {"DEF"}, "decrypt_kw_zip": {"DEF"}, "decrypt_kw_zip_b": {"DEF"}}
SIBLING = {"decrypt_kw_b": "decrypt_kw", "decrypt_kw_cbc_b": "decrypt_kw_cbc", "decrypt_kw_c20p_b": "decrypt_kw_c20p", "decrypt_1pu_kw_b": "decrypt_1pu_kw",
           "encrypt_kw_zip_b": "encrypt_kw_zip", "decrypt_kw_zip_b": "decrypt_kw_zip", "encrypt_json_kw_b": "encrypt_json_kw"}
CORE = ["sign_hs_k1", "sign_hs_k2", "verify_hs_k1", "verify_hs_wrongkey", "sign_es", "verify_es_private_obj", "keyset_new", "keyset_sign_pick",
        "keyset_verify_kid", "thumbprint", "ensure_kid", "export_public", "encrypt_kw", "decrypt_kw", "encrypt_ecdh", "jwt_roundtrip", "shared_keyset_sign", "shared_keyset_dict",
        "verify_disallowed", "verify_ed_allowed", "read_kid", "custom_registry_sign", "sign_unregistered_header",
        "encrypt_kw_foreign_header", "sigkey_first_use_sign", "sigkey_encrypt_refused", "sigkey_keyset", "sigkey_export",
        "verify_hs256_list", "verify_hs512_under_hs256_list", "verify_hs512_list", "decrypt_pbes2_right", "decrypt_pbes2_wrong",
        "verify_hs_registry_and_list", "verify_es_registry", "encrypt_kw_cbc", "decrypt_kw_cbc", "decrypt_kw_b", "decrypt_kw_cbc_b",
        "decrypt_kw_c20p", "decrypt_kw_c20p_b", "encrypt_gcmkw", "encrypt_1pu_kw", "decrypt_1pu_kw", "decrypt_1pu_kw_b",
        "encrypt_kw_zip", "encrypt_kw_zip_b", "decrypt_kw_zip", "decrypt_kw_zip_b", "pp_kid_a", "pp_kid_b", "pp_sign_b", "encrypt_pbes2", "reg2_ecdh_with_foreign_member", "reg2_pbes2", "reg2_gcmkw_with_foreign_member", "shared_keyset_verify_ec", "shared_keyset_verify_oct",
        "encrypt_json_kw", "encrypt_json_kw_b", "decrypt_c20p_list_and_registry", "decrypt_c20p_registry_only"]


def outcome(fn, G):
    try:
        with warnings.catch_warnings():
            warnings.simplefilter("ignore")
            return ["ok", json.loads(json.dumps(fn(G)))]
    except Exception as e:
        return ["err", type(e).__name__]


_ISO = {}


def isolate_all():
    """Outcome of every operation in isolation: each one computed in a forked child of the still pristine shard process (nothing
    but imports and the documented draft registration has run), so no earlier call can have influenced it."""
    import os
    for name in sorted(OPS):
        r, w = os.pipe()
        pid = os.fork()
        if pid == 0:
            try:
                os.close(r)
                a = outcome(OPS[name], Graph(needs(name)))
                b = outcome(OPS[name], Graph(needs(name)))
                os.write(w, json.dumps([a, b]).encode())
            finally:
                os._exit(0)
        os.close(w)
        data = b""
        while True:
            chunk = os.read(r, 65536)
            if not chunk:
                break
            data += chunk
        os.close(r)
        os.waitpid(pid, 0)
        a, b = json.loads(data)
        if a != b:
            raise HarnessError(f"operation {name} is not deterministic in isolation: {a} vs {b}")
        _ISO[name] = a


def in_child(fn):
    """Run fn() in a forked child of this (single-threaded at this point) process and return its JSON result: state left behind by
    a history cannot leak into the next one, so a recorded history is self-contained and replays in a fresh process."""
    import os
    r, w = os.pipe()
    pid = os.fork()
    if pid == 0:
        try:
            os.close(r)
            try:
                out = {"ok": fn()}
            except BaseException as e:
                out = {"error": f"{type(e).__name__}: {e}"}
            os.write(w, json.dumps(out).encode())
        finally:
            os._exit(0)
    os.close(w)
    data = b""
    while True:
        chunk = os.read(r, 65536)
        if not chunk:
            break
        data += chunk
    os.close(r)
    os.waitpid(pid, 0)
    out = json.loads(data or b'{"error": "child died"}')
    if "error" in out:
        raise HarnessError("history child failed: " + out["error"])
    return out["ok"]


def run_history_seq(seq):
    """Findings of one sequential history on a fresh shared graph: list of [key, text, record]."""
    out = []
    G = Graph(needs(*seq))
    FRESH.clear()
    for j, name in enumerate(seq):
        got = outcome(OPS[name], G)
        want = isolated(name)
        if got != want:
            out.append([f"C20:outcome-depends-on-earlier-calls:{name}", f"{name} after {seq[:j]} gave {json.dumps(got)[:160]}; in isolation {json.dumps(want)[:160]}",
                        {"history": seq[:j + 1]}])
            break
    for msg in post_state(G):
        out.append([f"C20:shared-state-corrupted:{msg.split(' is ')[0][:50]}", f"after the sequence {seq}: {msg}", {"history": seq}])
    for kind, v in _fresh_repeats():
        out.append([f"C20:fresh-value-repeated:{kind}", f"{kind} {v!r} occurs in two tokens produced during the sequence {seq}", {"history": seq}])
    return out


def isolated(name):
    if name not in _ISO:
        _ISO[name] = outcome(OPS[name], Graph(needs(name)))
        again = outcome(OPS[name], Graph(needs(name)))
        if again != _ISO[name]:
            raise HarnessError(f"operation {name} is not deterministic in isolation: {_ISO[name]} vs {again}")
    return _ISO[name]


def post_state(G) -> list:
    """Invariants of the shared graph after the calls."""
    m = material()
    bad = []
    for ks in ([G.ks] if hasattr(G, "ks") else []) + list(G.made_sets):
        for k in ks.keys:
            if k.kid is None:
                bad.append("a key of a key set has no kid")
    k = getattr(G, "ec_sig", None)
    if k is not None:
        try:
            d = k.as_dict(private=False)
            if d.get("kid") != "sig-key-1" or d.get("use") != "sig" or d.get("key_ops") != ["sign", "verify"] or d.get("kty") != "EC":
                bad.append(f"parameters of ec_sig is {({m: d.get(m) for m in ('kid', 'use', 'key_ops', 'kty')})!r} afterwards")
        except Exception as e:
            bad.append(f"export of ec_sig raises {type(e).__name__}")
    for name in ("ec", "ed", "oct1", "oct2", "rsa", "ec2"):
        k = getattr(G, name, None)
        if k is None:
            continue
        if k.kid is not None and k.kid != m["tp"][name]:
            bad.append(f"kid of {name} is {k.kid!r}, not its thumbprint")
        try:
            if k.thumbprint() != m["tp"][name]:
                bad.append(f"thumbprint of {name} changed")
        except Exception as e:
            bad.append(f"thumbprint of {name} raises {type(e).__name__}")
    return bad


# ------------------------------------------------------------------ the scheduler
class Sched:
    """Runs callables in threads, one at a time; a switch can only happen at a 'line' event inside joserfc, as told by `schedule`:
    a run-length list [(thread, lines), ...]; lines=None means 'until that thread is done'; when exhausted the lowest alive thread runs."""

    def __init__(self, fns, schedule, src):
        self.fns, self.src = fns, src
        self.rle = [[t, n] for t, n in schedule]
        self.n = len(fns)
        self.sems = [threading.Semaphore(0) for _ in fns]
        self.finished = threading.Semaphore(0)
        self.done = [False] * self.n
        self.results = [None] * self.n
        self.steps = [0] * self.n
        self.switches = 0
        self.aborted = False

    def _pick(self):
        alive = [i for i in range(self.n) if not self.done[i]]
        if not alive:
            return None
        while self.rle:
            t, n = self.rle[0]
            if t not in alive or n == 0:
                self.rle.pop(0)
                continue
            if n is not None:
                self.rle[0][1] = n - 1
            return t
        return alive[0]

    def _yield(self, i):
        self.steps[i] += 1
        nxt = self._pick()
        if nxt != i:
            self.switches += 1
            self.sems[nxt].release()
            if not self.sems[i].acquire(timeout=20):
                self.aborted = True
                raise HarnessError("scheduler timeout")

    def _tracer(self, i):
        src = self.src

        def local(frame, event, arg):
            if event == "line":
                self._yield(i)
            return local

        def glob(frame, event, arg):
            if event == "call" and frame.f_code.co_filename.startswith(src):
                return local
            return None
        return glob

    def _worker(self, i):
        if not self.sems[i].acquire(timeout=30):
            self.aborted = True
            return
        sys.settrace(self._tracer(i))
        try:
            self.results[i] = self.fns[i]()
        except HarnessError:
            self.aborted = True
        finally:
            sys.settrace(None)
            self.done[i] = True
            nxt = self._pick()
            if nxt is None:
                self.finished.release()
            else:
                self.sems[nxt].release()

    def run(self):
        ts = [threading.Thread(target=self._worker, args=(i,), daemon=True) for i in range(self.n)]
        for t in ts:
            t.start()
        self.sems[self._pick()].release()
        if not self.finished.acquire(timeout=60):
            self.aborted = True
        for t in ts:
            t.join(timeout=5)
        if self.aborted:
            raise HarnessError("a scheduled run did not terminate (deadlock in the harness?)")
        return self.results, self.steps


def src_prefix():
    import joserfc
    import os
    return os.path.dirname(os.path.realpath(joserfc.__file__))


def run_schedule(a, b, schedule):
    """Run ops a and b under the schedule. Returns (findings dict, switched?)."""
    G = Graph(needs(a, b))
    FRESH.clear()
    s = Sched([lambda: outcome(OPS[a], G), lambda: outcome(OPS[b], G)], schedule, SRC or src_prefix())
    res, steps = s.run()
    f = {}
    for name, got in zip((a, b), res):
        want = isolated(name)
        if got != want:
            f[f"C20:outcome-differs-under-interleaving:{name}"] = (f"{name} (interleaved with {b if name == a else a}) gave {json.dumps(got)[:160]}; "
                                                                  f"in isolation {json.dumps(want)[:160]}")
    # nothing may be left behind: both calls, repeated one after the other on the same objects, still behave as in isolation
    for name in (a, b):
        got = outcome(OPS[name], G)
        if got != isolated(name):
            f[f"C20:later-call-differs-after-interleaving:{name}"] = (f"{name} called again after {a} || {b} gave {json.dumps(got)[:160]}; "
                                                                     f"in isolation {json.dumps(isolated(name))[:160]}")
    for msg in post_state(G):
        f[f"C20:shared-state-corrupted:{msg.split(' is ')[0][:50]}"] = f"after {a} || {b}: {msg}"
    for kind, v in _fresh_repeats():
        f[f"C20:fresh-value-repeated:{kind}"] = f"{kind} {v!r} occurs in two tokens produced by {a} || {b} and their repetition"
    return f, s.switches > 0, steps


def solo_steps(name):
    G = Graph(needs(name))
    s = Sched([lambda: outcome(OPS[name], G)], [], SRC or src_prefix())
    _, steps = s.run()
    return steps[0]


# ------------------------------------------------------------------ shards
def shards(tier):
    n = len(CORE)
    pairs = [(a, b) for a in CORE for b in CORE]
    k = 13
    return [(f"s{i:02d}", {"part": "sched", "i": i, "n": k}) for i in range(k)] + [(f"m{i}", {"part": "multi"}) for i in range(2)] + \
           [(f"h{i}", {"part": "history"}) for i in range(3)] + [("stress", {"part": "stress"})]


def run_shard(ctx, spec):
    global SRC
    from gens.jose import setup_joserfc
    setup_joserfc()
    selftest.run()
    SRC = src_prefix()
    material()
    isolate_all()
    quick = ctx.tier == "quick"
    names = CORE if quick else sorted(OPS)
    if spec["part"] == "sched":
        pairs = [(a, b) for a in names for b in names]
        # pairs that share a lazily initialised or long-lived object first (dealt out evenly over the shards: they get every line):
        # should the time budget run out, it is the sparse schedules of unrelated pairs that are left over
        def is_hot(a, b):
            if not (TOUCH.get(a, set()) & TOUCH.get(b, set())):
                return False
            # the second-message variants exist to show cross-talk with their sibling (a call returning the other call's data):
            # with every other operation they would only repeat what the sibling's pairs explore
            for x, y in ((a, b), (b, a)):
                if x in SIBLING and y not in (x, SIBLING[x]) and not quick_all[0]:
                    return False
            return True
        quick_all = [not quick]
        hot_pairs = [p for p in pairs if is_hot(*p)]
        # objects shared by few operations first (a particular key set, registry, key), the built-in algorithm objects that half of the
        # operations touch last: under a tight budget the specific sharings are explored before the generic ones
        freq = Counter(t for n_ in names for t in TOUCH.get(n_, ()))
        hot_pairs.sort(key=lambda p: min(freq[t] for t in TOUCH[p[0]] & TOUCH[p[1]]))
        cold_pairs = [p for p in pairs if not is_hot(*p)]
        mine = [p for j, p in enumerate(hot_pairs) if j % spec["n"] == spec["i"]] + [p for j, p in enumerate(cold_pairs) if j % spec["n"] == spec["i"]]
        lens = {}

        def body(offset):
            for (a, b) in mine:
                if ctx.expired():
                    return
                if a not in lens:
                    lens[a] = solo_steps(a)
                la = lens[a]
                hot = is_hot(a, b)
                stride = 1 if (hot or not quick) else max(1, la // 2)   # every line for pairs sharing an object (and in thorough); 2-3 preemption points otherwise
                for i in range(offset % stride, la + 1, stride):
                    sched = [(0, i), (1, None)]
                    f, switched, steps = run_schedule(a, b, sched)
                    ctx.count("schedules")
                    if switched:
                        ctx.count("schedules:switched")
                    ctx.case((a, b, i), nontrivial=switched, cls=None,
                             sample={"A": a, "B": b, "preempt_A_after_lines": i, "lines": steps} if (i + len(a)) % 97 == 0 else None)
                    for k, w in f.items():
                        ctx.finding(k, w + f" [schedule: {a} runs {i} lines, then {b} to completion, then {a} resumes]", {"a": a, "b": b, "schedule": {"kind": "one", "i": i}})
                if hot:
                    # many preemptions: the two calls alternate every r lines (after a head start), which reaches states that need
                    # two or three switches at particular places (one call invalidating what the other has just built)
                    for r in (1, 3):
                        for start in range(offset % 3, 31, 3 if r == 1 else 6):
                            sched = [(0, start)] + [(1, r), (0, r)] * 600
                            f, switched, steps = run_schedule(a, b, sched)
                            ctx.count("schedules")
                            ctx.count("schedules:alternating")
                            ctx.case((a, b, "alt", r, start), nontrivial=switched, cls=None)
                            for k, w in f.items():
                                ctx.finding(k, w + f" [schedule: {a} runs {start} lines, then the calls alternate every {r} lines]",
                                            {"a": a, "b": b, "schedule": {"kind": "alt", "r": r, "start": start}})
        drive(ctx, "sched", st.integers(0, 10**6), body, 1)
    elif spec["part"] == "multi":
        strat = st.tuples(st.sampled_from(names), st.sampled_from(names), st.lists(st.integers(0, 1), min_size=20, max_size=400))

        def body(c):
            a, b, bits = c
            # a schedule with 2-3 preemptions: run-length blocks
            sched = []
            blocks = 3
            cuts = sorted({sum(bits[:20]) * 7 % 150, sum(bits[20:40]) * 11 % 200 + 5, len(bits) % 90 + 10})[:blocks]
            cur = 0
            last = 0
            for c_ in cuts:
                sched.append((cur, max(1, c_ - last)))
                last = c_
                cur ^= 1
            sched.append((cur, None))
            f, switched, steps = run_schedule(a, b, sched)
            ctx.count("schedules")
            if switched:
                ctx.count("schedules:switched")
            ctx.case((a, b, tuple(cuts)), nontrivial=switched, sample={"A": a, "B": b, "cuts": cuts})
            for k, w in f.items():
                ctx.finding(k, w + f" [schedule cuts {cuts}]", {"a": a, "b": b, "schedule": {"kind": "rle", "rle": [list(x) for x in sched]}})
        drive(ctx, "multi", strat, body, 500 if quick else 20000)
    elif spec["part"] == "history":
        strat = st.lists(st.sampled_from(sorted(OPS)), min_size=2, max_size=12)

        def body(seq):
            res = in_child(lambda: run_history_seq(seq))
            ctx.count("history-steps", len(seq))
            for j in range(len(seq)):
                ctx.case(("hist", tuple(seq[max(0, j - 2):j + 1])), nontrivial=j > 0)
            for k, w, rec in res:
                ctx.finding(k, w, rec)
        drive(ctx, "history", strat, body, 500 if quick else 6000)
    else:
        run_stress(ctx, 4.0 if quick else 30.0)


def run_stress(ctx, seconds):
    old = sys.getswitchinterval()
    sys.setswitchinterval(1e-6)
    try:
        t_end = time.time() + seconds
        rounds = 0
        while time.time() < t_end:
            names = [CORE[(rounds * 7 + j * 3) % len(CORE)] for j in range(8 + rounds % 17)]
            G = Graph(needs(*names))
            results = [None] * len(names)
            barrier = threading.Barrier(len(names))

            def work(j):
                barrier.wait()
                results[j] = outcome(OPS[names[j]], G)
            ts = [threading.Thread(target=work, args=(j,)) for j in range(len(names))]
            for t in ts:
                t.start()
            for t in ts:
                t.join()
            for name, got in zip(names, results):
                ctx.count("stress-ops")
                if got != isolated(name):
                    ctx.finding(f"C20:outcome-differs-under-stress:{name}", f"{name} among {len(names)} threads gave {json.dumps(got)[:160]}; in isolation {json.dumps(isolated(name))[:160]}",
                                {"stress": names})
            for msg in post_state(G):
                ctx.finding(f"C20:shared-state-corrupted:{msg.split(' is ')[0][:50]}", f"after stress round {names}: {msg}", {"stress": names})
            rounds += 1
            ctx.case(("stress", tuple(names)), cls="stress-round", sample={"threads": names} if rounds % 50 == 1 else None)
    finally:
        sys.setswitchinterval(old)


def replay(rec) -> dict:
    global SRC
    from gens.jose import setup_joserfc
    setup_joserfc()
    SRC = src_prefix()
    material()
    isolate_all()
    if "history" in rec:
        return {k: w for k, w, _ in run_history_seq(rec["history"])}
    if "stress" in rec:
        return {}     # non-deterministic: not replayable
    sch = rec["schedule"]
    sched = [(0, sch["i"]), (1, None)] if sch["kind"] == "one" else ([(0, sch["start"])] + [(1, sch["r"]), (0, sch["r"])] * 600) if sch["kind"] == "alt" else \
        [tuple(x) for x in sch["rle"]]
    f, _, _ = run_schedule(rec["a"], rec["b"], sched)
    return f
