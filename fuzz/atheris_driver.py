#!/venv/bin/python
"""Coverage-guided supplement (thorough tier): libFuzzer (atheris) drives the *same* Hypothesis case strategy and the same oracle as
the check's Hypothesis tier, through hypothesis' fuzz_one_input: the fuzzer mutates the choice sequence, joserfc is instrumented for
coverage.  Findings are not crashes: they are appended as JSON lines to <outdir>/findings.jsonl and the campaign goes on.

usage: atheris_driver.py <C16|C19> <outdir> [libFuzzer flags, e.g. -max_total_time=300 -seed=7]
"""
import json
import os
import sys

HERE = os.path.dirname(os.path.abspath(__file__))
VERIF = os.path.dirname(HERE)
sys.path.insert(0, VERIF)
sys.path.insert(0, os.path.join(VERIF, ".deps"))

import atheris  # noqa

from harness import core  # noqa

core.setup_path()
with atheris.instrument_imports(include=["joserfc"]):
    import joserfc  # noqa
    import joserfc.jws, joserfc.jwe, joserfc.jwt, joserfc.jwk  # noqa
    import joserfc.rfc7797  # noqa
    import joserfc.drafts.jwe_ecdh_1pu, joserfc.drafts.jwe_chacha20  # noqa

from hypothesis import given, settings, HealthCheck  # noqa


def main():
    pid, outdir = sys.argv[1], sys.argv[2]
    os.makedirs(outdir, exist_ok=True)
    out = open(os.path.join(outdir, "findings.jsonl"), "a")
    seen = set()
    stats = {"n": 0}
    from gens.jose import setup_joserfc
    setup_joserfc()
    if pid == "C16":
        from checks import c16_robustness as mod
        mod.fixed_keys(); mod.valid_tokens(); mod.valid_json_tokens()
        strategy = mod.case_strategy

        def run(case):
            return mod.run_case(case)
    elif pid == "C19":
        from checks import c19_codecs as mod
        from hypothesis import strategies as st
        strategy = st.one_of(st.binary(max_size=64).map(lambda b: {"kind": "b64any", "text_hex": b.hex()}),
                             st.binary(max_size=300).map(lambda b: {"kind": "b64rt", "data_hex": b.hex()}),
                             st.integers(-2**64, 2**2100).map(lambda n: {"kind": "int", "n": str(n)}))

        def run(case):
            if case["kind"] == "int" and case["n"] == "0":
                return {}
            return mod.replay(case)
    else:
        raise SystemExit("unknown check")

    @settings(database=None, deadline=None, suppress_health_check=list(HealthCheck))
    @given(strategy)
    def test(case):
        stats["n"] += 1
        f = run(case)
        for k, w in f.items():
            if k.startswith("_") or k in seen:
                continue
            seen.add(k)
            out.write(json.dumps({"key": k, "what": w, "record": case}) + "\n")
            out.flush()
        if stats["n"] % 500 == 0:
            with open(os.path.join(outdir, "stats.json"), "w") as sf:
                json.dump(stats, sf)

    atheris.Setup([sys.argv[0]] + sys.argv[3:], test.hypothesis.fuzz_one_input)
    try:
        atheris.Fuzz()
    finally:
        with open(os.path.join(outdir, "stats.json"), "w") as sf:
            json.dump(stats, sf)


if __name__ == "__main__":
    main()
