"""Adapter between reference keys / signing plans and the joserfc API under test."""
from __future__ import annotations
import warnings

from ref import keys as rk
from gens.pem import to_pem

ALL_JWS = ["HS256", "HS384", "HS512", "RS256", "RS384", "RS512", "ES256", "ES384", "ES512",
           "PS256", "PS384", "PS512", "EdDSA", "ES256K", "none"]
KEYFORMS = ["dict", "registry", "pem", "der"]


def setup_joserfc():
    """Register the draft algorithms once (documented explicit registration)."""
    from joserfc.drafts.jwe_ecdh_1pu import register_ecdh_1pu
    from joserfc.drafts.jwe_chacha20 import register_chaha20_poly1305
    from joserfc.jwe import JWERegistry
    if "ECDH-1PU" not in JWERegistry.algorithms["alg"]:
        register_ecdh_1pu()
    if "C20P" not in JWERegistry.algorithms["enc"]:
        register_chaha20_poly1305()


def jkey(refkey: dict, form: str = "dict", private: bool = True, params: dict | None = None):
    """Build a joserfc key object from a reference key."""
    from joserfc.jwk import OctKey, RSAKey, ECKey, OKPKey, JWKRegistry
    cls = {"oct": OctKey, "RSA": RSAKey, "EC": ECKey, "OKP": OKPKey}[refkey["kty"]]
    src = refkey if private else rk.public_of(refkey)
    if refkey["kty"] == "oct":
        if form in ("pem", "der"):
            with warnings.catch_warnings():
                warnings.simplefilter("ignore")
                return OctKey.import_key(refkey["k"], params)
        d = rk.export_jwk(src)
        return (JWKRegistry.import_key(d, parameters=params) if form == "registry" else cls.import_key(d, params))
    if form == "dict":
        return cls.import_key(rk.export_jwk(src, private), params)
    if form == "registry":
        return JWKRegistry.import_key(rk.export_jwk(src, private), parameters=params)
    if form == "pem":
        return cls.import_key(to_pem(src, private), params)
    if form == "der":
        return cls.import_key(to_pem(src, private, der=True), params)
    raise ValueError(form)


def exc_key(e: BaseException) -> str:
    """<Type>@<innermost joserfc function> for bucketing exceptions by root cause."""
    import traceback
    tb = traceback.extract_tb(e.__traceback__)
    where = "?"
    for fr in tb:
        if "/joserfc/" in fr.filename:
            where = fr.filename.split("/joserfc/")[-1].replace(".py", "") + "." + fr.name
    return f"{type(e).__name__}@{where}"
