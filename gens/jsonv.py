"""JSON value strategies with a dictionary of 'interesting' strings."""
from hypothesis import strategies as st

HEADER_NAMES = ["alg", "enc", "zip", "jku", "jwk", "kid", "x5u", "x5c", "x5t", "x5t#S256", "typ", "cty",
                "crit", "b64", "epk", "apu", "apv", "p2s", "p2c", "iv", "tag", "skid"]
JWS_ALGS = ["none", "HS256", "HS384", "HS512", "RS256", "RS384", "RS512", "ES256", "ES384", "ES512",
            "PS256", "PS384", "PS512", "EdDSA", "ES256K"]
JWE_ALGS = ["RSA1_5", "RSA-OAEP", "RSA-OAEP-256", "A128KW", "A192KW", "A256KW", "dir", "ECDH-ES",
            "ECDH-ES+A128KW", "ECDH-ES+A192KW", "ECDH-ES+A256KW", "A128GCMKW", "A192GCMKW", "A256GCMKW",
            "PBES2-HS256+A128KW", "PBES2-HS384+A192KW", "PBES2-HS512+A256KW",
            "ECDH-1PU", "ECDH-1PU+A128KW", "ECDH-1PU+A192KW", "ECDH-1PU+A256KW"]
JWE_ENCS = ["A128CBC-HS256", "A192CBC-HS384", "A256CBC-HS512", "A128GCM", "A192GCM", "A256GCM", "C20P", "XC20P"]
CURVES = ["P-256", "P-384", "P-521", "secp256k1", "Ed25519", "Ed448", "X25519", "X448"]
INTERESTING = (HEADER_NAMES + JWS_ALGS + JWE_ALGS + JWE_ENCS + CURVES +
               ["DEF", "kty", "crv", "x", "y", "d", "k", "n", "e", "oct", "RSA", "EC", "OKP", "JWT",
                "https://example.com/k", "http://a", "", "AQAB", "AAAA", "eyJhbGciOiJIUzI1NiJ9", "sig", "enc",
                "use", "key_ops", "sign", "verify", "é", "\U0001f600", "\x00", "a.b", "=", " "])

interesting_text = st.sampled_from(INTERESTING)
text = st.one_of(interesting_text, st.text(max_size=12),
                 st.text(alphabet=st.characters(exclude_categories=["Cs"]), max_size=6))
ints = st.one_of(st.integers(-3, 300), st.sampled_from([2**31, 2**53, 2**63 - 1, 2**63, 2**64, -2**63, -2**70, 10**30, 2048, 4096]))
floats = st.floats(allow_nan=False, allow_infinity=False, width=64)
scalars = st.one_of(st.none(), st.booleans(), ints, floats, text)


def json_value(max_leaves: int = 8):
    return st.recursive(
        scalars,
        lambda ch: st.one_of(st.lists(ch, max_size=4), st.dictionaries(text, ch, max_size=4)),
        max_leaves=max_leaves,
    )


def json_object(max_leaves: int = 8, max_size: int = 5):
    return st.dictionaries(text, json_value(max_leaves), max_size=max_size)


# one representative of every JSON type, used for retyping a member
def typed_values():
    return st.one_of(
        st.none(), st.booleans(), ints, floats, text,
        st.lists(text, max_size=3), st.lists(json_value(3), max_size=3),
        st.dictionaries(text, json_value(3), max_size=3),
    )


def json_type(v) -> str:
    if v is None:
        return "null"
    if isinstance(v, bool):
        return "bool"
    if isinstance(v, int):
        return "int"
    if isinstance(v, float):
        return "float"
    if isinstance(v, str):
        return "str"
    if isinstance(v, list):
        return "list[str]" if v and all(isinstance(i, str) for i in v) else "list"
    if isinstance(v, dict):
        return "object"
    return type(v).__name__
