"""Encryption plans: JSON-serialisable description of a JWE to produce + executors for joserfc and the reference."""
from __future__ import annotations
import copy
import hashlib

from hypothesis import strategies as st

from gens import keys as gk
from gens.jose import jkey
from gens.spelling import spell
from ref import b64 as rb, jwe as rjwe, keys as rk

SERS = ("compact", "flattened", "general")
ENCS = list(rjwe.ENCS)
ALGS = list(rjwe.ALGS)
ALL_NAMES = ALGS + ENCS + ["DEF"]
EC_CURVES = ["P-256", "P-384", "P-521", "secp256k1"]
X_CURVES = ["X25519", "X448"]
CBC = ["A128CBC-HS256", "A192CBC-HS384", "A256CBC-HS512"]


def key_for(alg: str, enc: str, curve: str | None = None):
    if alg in rjwe.RSA_ALGS:
        return gk.rsa_key(2048, 4096)
    if alg in rjwe.KW_SIZE:
        return gk.oct_key(sizes=[rjwe.KW_SIZE[alg]])
    if alg in rjwe.GCMKW_SIZE:
        return gk.oct_key(sizes=[rjwe.GCMKW_SIZE[alg]])
    if alg == "dir":
        return gk.oct_key(sizes=[rjwe.ENCS[enc][0]])
    if alg in rjwe.PBES2:
        return gk.oct_key(1, 40)
    if curve in X_CURVES:
        return gk.okp_key(curve)
    return gk.ec_key(curve)


plaintexts = st.one_of(
    st.just(b""), st.binary(min_size=1, max_size=1), st.sampled_from([15, 16, 17, 31, 32, 33]).flatmap(lambda n: st.binary(min_size=n, max_size=n)),
    st.binary(max_size=64), st.binary(min_size=64, max_size=2048), st.text(max_size=30).map(lambda s: s.encode()),
    st.just(b'{"iss":"joe","exp":1300819380,"http://example.com/is_root":true}'),
)
compressible = st.one_of(st.integers(1, 65536).map(lambda n: b"\x00" * n),
                         st.tuples(st.binary(min_size=1, max_size=40), st.integers(1, 2000)).map(lambda t: t[0] * t[1]))


def pt_class(p: bytes) -> str:
    n = len(p)
    if n == 0:
        return "empty"
    if n < 15:
        return "short"
    if n % 16 == 0:
        return "block-aligned"
    if n > 2048:
        return "large"
    return "unaligned"


b64str = st.binary(max_size=12).map(rb.encode)


@st.composite
def plans(draw, sers=SERS, algs=None, encs=None, max_recipients=4, allow_zip=True, small=False, force_zip=None, curves=None, allow_headerless=False):
    algs = algs or ALGS
    encs = encs or ENCS
    ser = draw(st.sampled_from(sers))
    n = 1 if ser != "general" else draw(st.sampled_from([1, 1, 2, 2, 3, 4][: 2 + max_recipients]))
    first = draw(st.sampled_from(algs))
    if n > 1 and not [a for a in algs if a not in rjwe.DIRECT]:
        n = 1       # only direct modes to choose from: a single recipient
    if n > 1:
        pool = [a for a in algs if a not in rjwe.DIRECT]
        if first in rjwe.DIRECT:
            first = draw(st.sampled_from(pool))
        # one algorithm for all recipients in a third of the cases, so that it can live in a shared header
        alglist = [first] * n if draw(st.integers(0, 2)) == 0 else [first] + [draw(st.sampled_from(pool)) for _ in range(n - 1)]
    else:
        alglist = [first]
    if any(a in rjwe.ECDH_1PU and a != "ECDH-1PU" for a in alglist):
        enc = draw(st.sampled_from([e for e in encs if e in CBC] or CBC))
    else:
        enc = draw(st.sampled_from(encs))
    zipv = ("DEF" if force_zip else None) if force_zip is not None else ("DEF" if allow_zip and draw(st.integers(0, 3)) == 0 else None)
    pt = draw(plaintexts if (zipv is None or small) else st.one_of(plaintexts, compressible))
    aad = draw(st.one_of(st.none(), st.binary(min_size=1, max_size=20))) if ser != "compact" else None
    same_alg = len(set(alglist)) == 1
    place = "protected" if ser == "compact" else draw(st.sampled_from(["protected", "unprotected", "recipient"] if same_alg else ["recipient"]))
    # ECDH: one curve for all agreement recipients sharing a sender key
    curve = draw(st.sampled_from(curves or (EC_CURVES + X_CURVES)))
    sender = None
    if any(a in rjwe.ECDH_1PU for a in alglist):
        sender = gk.key_to_record(draw(key_for("ECDH-1PU", enc, curve)))
    # several recipients that carry no header of their own (alg shared): only each single recipient can then decrypt (no kid to resolve)
    headerless = allow_headerless and n > 1 and place != "recipient" and draw(st.booleans())
    recipients = []
    for i, alg in enumerate(alglist):
        # without a sender key every agreement recipient may live on a curve of its own (EC and X25519 / X448 recipients in one message)
        rcurve = curve if (sender is not None or i == 0 or alg not in rjwe.ECDH_ES) else draw(st.sampled_from(curves or (EC_CURVES + X_CURVES)))
        key = draw(key_for(alg, enc, rcurve))
        hdr = {}
        if place == "recipient":
            hdr["alg"] = alg
        kid = None if headerless else (f"r{i}" if (n > 1 or draw(st.booleans())) else None)
        rec = {"alg": alg, "key": gk.key_to_record(key), "header": hdr or None, "kid": kid}
        if alg in rjwe.PBES2 and draw(st.booleans()):
            rec["p2c"] = draw(st.one_of(st.integers(1, 64), st.integers(1, 64), st.sampled_from([1000, 4096, 10001, 32768])))
            rec["p2s"] = draw(st.binary(min_size=8, max_size=24)).hex()
        recipients.append(rec)
    protected = {"enc": enc}
    unprotected = None
    if place == "protected":
        protected = {"alg": alglist[0], "enc": enc}
    elif place == "unprotected":
        unprotected = {"alg": alglist[0]}
    if zipv:
        protected["zip"] = zipv
    if all(a in rjwe.ECDH_ES or a in rjwe.ECDH_1PU for a in alglist) and draw(st.booleans()):
        protected["apu"] = draw(b64str)
        protected["apv"] = draw(b64str)
    ex = draw(st.fixed_dictionaries({}, optional={"typ": st.sampled_from(["JWT", "é"]), "cty": st.just("json")}))
    if ser != "compact" and ex and draw(st.booleans()):
        unprotected = {**(unprotected or {}), **ex}
    else:
        protected.update(ex)
    return {"ser": ser, "enc": enc, "zip": zipv, "plaintext_hex": pt.hex(), "aad_hex": None if aad is None else aad.hex(),
            "protected": protected, "unprotected": unprotected, "recipients": recipients, "sender": sender, "place": place, "headerless": headerless,
            # role-specific key metadata: producer's key objects list only the producing operations, the consumer's the consuming ones
            "role": draw(st.sampled_from([None, None, None, "ops", "use", "ops+use", "ops-min", "ops-min+use"]))}


def plan_label(plan) -> tuple:
    return (plan["ser"], plan["enc"], plan["zip"], tuple(r["alg"] for r in plan["recipients"]), plan["place"],
            plan["aad_hex"] is not None, "apu" in plan["protected"], pt_class(bytes.fromhex(plan["plaintext_hex"])),
            tuple(gk.describe(gk.key_from_record(r["key"])) for r in plan["recipients"]))


# ------------------------------------------------------------------ joserfc side
def _rec_header(plan, r, with_kid: bool):
    h = dict(r["header"] or {})
    if with_kid and r["kid"] is not None:
        h["kid"] = r["kid"]
    if "p2c" in r:
        h["p2c"] = r["p2c"]
        h["p2s"] = rb.encode(bytes.fromhex(r["p2s"]))
    return h


def allow_kw(plan, **extra):
    """How the allow-list reaches the library: algorithms=, or - when the plan carries a caller-registered header parameter -
    a registry that knows it."""
    from joserfc import jwe
    if plan.get("custom_header"):
        from joserfc.registry import HeaderParameter
        return {"registry": jwe.JWERegistry(header_registry={plan["custom_header"]: HeaderParameter("caller registered", "str")}, algorithms=ALL_NAMES, **extra)}
    if extra:
        return {"registry": jwe.JWERegistry(algorithms=ALL_NAMES, **extra)}
    return {"algorithms": ALL_NAMES}


def role_params(role, side: str, base=None, alg: str | None = None):
    out = dict(base or {})
    if role and "ops-min" in role and alg is not None:
        # exactly the one operation of the key's own side: RSA key encryption "encrypt" / "decrypt", AES and GCM key wrapping
        # "wrapKey" / "unwrapKey", key agreement and PBES2 "deriveKey"
        one = (("encrypt", "decrypt") if alg in rjwe.RSA_ALGS else ("wrapKey", "unwrapKey") if (alg in rjwe.KW_SIZE or alg in rjwe.GCMKW_SIZE) else
               ("deriveKey", "deriveKey") if (alg in rjwe.PBES2 or alg.startswith("ECDH")) else None)
        if one:
            out["key_ops"] = [one[0] if side == "enc" else one[1]]
    elif role and "ops" in role:
        out["key_ops"] = ["encrypt", "wrapKey", "deriveKey"] if side == "enc" else ["decrypt", "unwrapKey", "deriveKey"]
    if role and "use" in role:
        out["use"] = "enc"
    return out or None


def jose_encrypt(plan, keymode: str = "attached", form: str = "dict", preset_epk: bool = False, times: int = 1):
    """keymode: 'attached' (key handed to add_recipient / positional), 'keyset' (kid lookup), 'callable'."""
    from joserfc import jwe
    from joserfc.jwk import KeySet
    pt = bytes.fromhex(plan["plaintext_hex"])
    role = plan.get("role")
    sender = jkey(gk.key_from_record(plan["sender"]), form, True, role_params(role, "enc")) if plan["sender"] else None
    recs = plan["recipients"]
    keys = [jkey(rk.public_of(gk.key_from_record(r["key"])) if gk.key_from_record(r["key"])["kty"] != "oct" else gk.key_from_record(r["key"]),
                 form, False if r["key"]["kty"] != "oct" else True, role_params(role, "enc", {"kid": r["kid"]} if r["kid"] else None, r["alg"])) for r in recs]
    if plan["ser"] == "compact":
        prot = copy.deepcopy(plan["protected"])
        h = _rec_header(plan, recs[0], keymode != "attached" and recs[0]["kid"] is not None)
        prot.update(h)
        keyarg = keys[0] if keymode == "attached" else KeySet(keys) if keymode == "keyset" else (lambda obj: keys[0])
        return jwe.encrypt_compact(prot, pt, keyarg, sender_key=sender, **allow_kw(plan))
    cls = jwe.FlattenedJSONEncryption if plan["ser"] == "flattened" else jwe.GeneralJSONEncryption
    aad = None if plan["aad_hex"] is None else bytes.fromhex(plan["aad_hex"])
    obj = cls(copy.deepcopy(plan["protected"]), pt, copy.deepcopy(plan["unprotected"]), aad)
    for r, k in zip(recs, keys):
        h = _rec_header(plan, r, True)
        obj.add_recipient(h or None, k if keymode == "attached" else None)
        if preset_epk and (r["alg"] in rjwe.ECDH_ES or r["alg"] in rjwe.ECDH_1PU) and r["key"]["kty"] in ("EC", "OKP"):
            # the caller supplies the ephemeral key pair itself (Recipient.ephemeral_key), with ordinary JWK parameters on it
            from joserfc.jwk import ECKey, OKPKey
            kcls = ECKey if r["key"]["kty"] == "EC" else OKPKey
            obj.recipients[-1].ephemeral_key = kcls.generate_key(gk.key_from_record(r["key"])["crv"], {"kid": "eph-1", "use": "enc"})
    keyarg = None if keymode == "attached" else KeySet(keys) if keymode == "keyset" else (lambda o: keys[[i for i, r in enumerate(recs) if (o.headers().get("kid") == r["kid"])][0]] if len(recs) > 1 else keys[0])
    for _ in range(times - 1):
        # the object serves as a template: it is encrypted more than once, the last output counts
        jwe.encrypt_json(obj, keyarg, sender_key=sender, **allow_kw(plan))
    return jwe.encrypt_json(obj, keyarg, sender_key=sender, **allow_kw(plan))


def jose_private_keys(plan, form: str = "dict"):
    return [jkey(gk.key_from_record(r["key"]), form, True, role_params(plan.get("role"), "dec", {"kid": r["kid"]} if r["kid"] else None, r["alg"])) for r in plan["recipients"]]


def jose_decrypt(token, plan, mode: str = "all", form: str = "dict", index: int = 0):
    """mode 'all': every recipient's key is offered (key set / the single key); 'one': only recipient `index`'s key,
    any-recipient validation."""
    from joserfc import jwe
    from joserfc.jwk import KeySet
    keys = jose_private_keys(plan, form)
    sender = jkey(rk.public_of(gk.key_from_record(plan["sender"])), form, False, role_params(plan.get("role"), "dec")) if plan["sender"] else None
    if isinstance(token, (str, bytes)):
        return jwe.decrypt_compact(token, keys[0], sender_key=sender, **allow_kw(plan))
    if mode == "all":
        keyarg = keys[0] if len(keys) == 1 else KeySet(keys)
        return jwe.decrypt_json(token, keyarg, sender_key=sender, **allow_kw(plan))
    return jwe.decrypt_json(token, lambda o: keys[index], sender_key=sender, **allow_kw(plan, verify_all_recipients=False))


# ------------------------------------------------------------------ reference side
def derive_rnd(plan, seed: int) -> dict:
    """Deterministic 'random' material for the reference encryptor."""
    def h(tag, n):
        out = b""
        c = 0
        while len(out) < n:
            out += hashlib.sha512(f"{seed}/{tag}/{c}".encode()).digest()
            c += 1
        return out[:n]
    enc = plan["enc"]
    rnd = {"cek": h("cek", rjwe.ENCS[enc][0]), "iv": h("iv", rjwe.ENCS[enc][1]), "recipients": []}
    for i, r in enumerate(plan["recipients"]):
        rr = {"gcmkw_iv": h(f"gi{i}", 12), "p2s": bytes.fromhex(r["p2s"]) if "p2s" in r else h(f"p2s{i}", 16),
              "p2c": r.get("p2c", 1000 + (seed + i) % 50)}
        k = gk.key_from_record(r["key"])
        if r["alg"] in rjwe.ECDH_ES or r["alg"] in rjwe.ECDH_1PU:
            if k["kty"] == "EC":
                from ref.ec import CURVES
                d = int.from_bytes(h(f"epk{i}", 80), "big") % (CURVES[k["crv"]].n - 1) + 1
                rr["epk"] = gk.ec_from_d(k["crv"], d)
            else:
                from ref.okp import OKP_SIZES
                rr["epk"] = gk.okp_from_seed(k["crv"], h(f"epk{i}", OKP_SIZES[k["crv"]]))
        rnd["recipients"].append(rr)
    return rnd


def ref_encrypt(plan, seed: int = 0, spelling=("canonical", 0), additions_in_protected: bool | None = None, zip_level=None, raw_zip=None,
                iv_zero_prefix: int = 0):
    rnd = derive_rnd(plan, seed)
    if iv_zero_prefix:
        # a sender with a counter-based nonce: the IV starts with zero octets
        rnd["iv"] = bytes(iv_zero_prefix) + rnd["iv"][iv_zero_prefix:]
    pt = bytes.fromhex(plan["plaintext_hex"])
    aad = None if plan["aad_hex"] is None else bytes.fromhex(plan["aad_hex"])
    protected = copy.deepcopy(plan["protected"])
    unprotected = copy.deepcopy(plan["unprotected"])
    if additions_in_protected is None:
        additions_in_protected = plan["ser"] == "compact"
    if len(plan["recipients"]) > 1:
        additions_in_protected = False
    rec_headers = []
    recs = []
    sender = gk.key_from_record(plan["sender"]) if plan["sender"] else None
    direct = plan["recipients"][0]["alg"] in rjwe.DIRECT
    for r, rr in zip(plan["recipients"], rnd["recipients"]):
        key = gk.key_from_record(r["key"])
        pub = rk.public_of(key) if key["kty"] != "oct" else key
        hdr = dict(r["header"] or {})
        if r["kid"] is not None:
            hdr["kid"] = r["kid"]
        add = rjwe.prepare_additions(r["alg"], pub, rr, rnd["cek"])
        if plan["ser"] == "compact" or additions_in_protected:
            protected.update(add)
            if plan["ser"] == "compact":
                protected.update(hdr)
                hdr = {}
        else:
            hdr.update(add)
        rec_headers.append(hdr or None)
        recs.append({"alg": r["alg"], "key": pub, "header": hdr, "rnd": rr, "sender": sender})
    ptext = spell(protected, spelling[0], spelling[1])
    parts = rjwe.encrypt(ptext, protected, pt, recs, plan["enc"], None if direct else rnd["cek"], rnd["iv"], aad, unprotected,
                         zip_level=zip_level, raw_zip=raw_zip)
    if plan["ser"] == "compact":
        return rjwe.to_compact(parts), parts
    return rjwe.to_json(parts, rec_headers, unprotected, plan["ser"] == "flattened"), parts


def ref_keyres(plan, private: bool = True, only: int | None = None):
    table = {}
    keys = []
    for i, r in enumerate(plan["recipients"]):
        k = gk.key_from_record(r["key"])
        keys.append(k)
        if r["kid"] is not None:
            table[r["kid"]] = k

    def res(hdr):
        if only is not None:
            return keys[only]
        kid = hdr.get("kid")
        if kid in table:
            return table[kid]
        if len(keys) == 1:
            return keys[0]
        raise rjwe.Reject("no key for kid")
    return res


def ref_decrypt(token, plan, strict: bool = False, any_recipient: bool = False, only: int | None = None, limit=256000):
    sender = rk.public_of(gk.key_from_record(plan["sender"])) if plan["sender"] else None
    kr = ref_keyres(plan, only=only)
    if isinstance(token, (str, bytes)):
        return rjwe.decrypt_compact(token, kr, sender, strict=strict, limit=limit)
    return rjwe.decrypt_json(token, kr, sender, any_recipient=any_recipient, strict=strict, limit=limit)
