"""Signing plans: a JSON-serialisable description of a JWS to produce (algorithm(s), keys, header placement,
payload, serialization, b64 option) + executors for joserfc and for the reference."""
from __future__ import annotations
import copy

from hypothesis import strategies as st

from gens import keys as gk
from gens.jose import jkey, ALL_JWS
from gens.spelling import spell
from ref import b64 as rb, jws as rjws, keys as rk

SERS = ("compact", "flattened", "general")
KEYMODES = ("key", "keyset_kid", "keyset_nokid", "callable_key", "callable_keyset", "callable_keyset_nokid", "keyset_single")
NOKID_MODES = ("keyset_nokid", "callable_keyset_nokid", "keyset_single")

_urlsafe = st.text(alphabet="abcXYZ019-_~", min_size=1, max_size=20).map(str.encode)
payload_any = st.one_of(
    st.just(b""), st.binary(max_size=24), _urlsafe, st.just(b"a.b.c"), st.just(b"$.02"),
    st.text(max_size=20).map(lambda s: s.encode("utf-8")),
    st.binary(min_size=1, max_size=4).map(lambda b: b"\xff\xfe" + b),
    st.binary(min_size=100, max_size=4096),
    st.just(b'{"iss":"joe","exp":1300819380}'), st.just(b'{"sub":"a","n":[1,2],"o":{"k":null}}'), st.just(b"{}"),
)
payload_utf8 = st.one_of(st.just(b""), _urlsafe, st.just(b"a.b.c"), st.just(b"$.02"), st.just(b"with space\n"),
                         st.text(max_size=40).map(lambda s: s.encode("utf-8")),
                         st.text(alphabet=st.characters(exclude_categories=["Cs"]), min_size=1, max_size=300).map(lambda s: s.encode("utf-8")))


def payload_class(p: bytes) -> str:
    if not p:
        return "empty"
    try:
        t = p.decode("utf-8")
    except UnicodeDecodeError:
        return "non-utf8"
    if all(c in "abcdefghijklmnopqrstuvwxyzABCDEFGHIJKLMNOPQRSTUVWXYZ0123456789-_~" for c in t):
        return "urlsafe"
    if "." in t:
        return "has-dot"
    if not t.isascii():
        return "non-ascii"
    return "ascii" if len(p) < 100 else "long"


extras = st.fixed_dictionaries({}, optional={
    "typ": st.sampled_from(["JWT", "JOSE", "é✓", ""]),
    "cty": st.sampled_from(["json", "application/x+json"]),
    "x5t": st.just("dGh1bWI"),
    "jku": st.just("https://example.com/jwks.json"),
    "x5c": st.just(["MIIB", "MIIC"]),
})


@st.composite
def plans(draw, sers=SERS, algs=gk.JWS_ALGS, allow_b64=True, max_members=3, utf8_only=False, b64_choices=None):
    ser = draw(st.sampled_from(sers))
    n = 1 if ser != "general" else draw(st.integers(1, max_members))
    b64 = draw(st.sampled_from(b64_choices or [None, None, True, False])) if (ser != "general" and allow_b64) else None
    if b64 is False:
        payload = draw(payload_utf8 if utf8_only else st.one_of(payload_utf8, payload_utf8, payload_utf8, payload_any))
    else:
        payload = draw(payload_any)
    members = []
    for i in range(n):
        alg = draw(st.sampled_from(algs))
        key = draw(gk.jws_key_for(alg))
        ex = draw(extras)
        if draw(st.integers(0, 5)) == 0:
            ex["crit"] = ["cty"]
            ex.setdefault("cty", "json")
        kid = draw(st.sampled_from([None, None, f"key-{i}", "é-kid"])) if n == 1 else f"key-{i}"
        if ser == "compact":
            protected, header = {"alg": alg, **ex}, None
        else:
            names = sorted(ex)
            to_unprot = set(draw(st.lists(st.sampled_from(names), unique=True, max_size=len(names)))) if names else set()
            if "crit" in to_unprot:
                to_unprot.discard("crit")
            protected = {k: v for k, v in ex.items() if k not in to_unprot}
            header = {k: v for k, v in ex.items() if k in to_unprot}
            if draw(st.booleans()) or b64 is not None:
                protected = {"alg": alg, **protected}
            else:
                header = {"alg": alg, **header}
            shape = draw(st.integers(0, 3))
            if not header:
                header = None if shape % 2 else {}
            if not protected:
                protected = None if shape // 2 else {}
        if b64 is not None:
            protected["b64"] = b64
            crit = list(protected.get("crit", []))
            protected["crit"] = crit + ["b64"]
        members.append({"alg": alg, "key": gk.key_to_record(key), "protected": protected, "header": header, "kid": kid})
    # role-specific key metadata: the signer's key object says key_ops ["sign"], the verifier's (same material) ["verify"]
    role = draw(st.sampled_from([None, None, None, "ops", "use", "ops+use"]))
    return {"ser": ser, "b64": b64, "payload_hex": payload.hex(), "members": members, "role": role}


def plan_label(plan) -> tuple:
    m = plan["members"]
    return (plan["ser"], plan["b64"], tuple(x["alg"] for x in m), payload_class(bytes.fromhex(plan["payload_hex"])),
            tuple(("p" if x["protected"] and "alg" in x["protected"] else "u") for x in m))


def _kids(plan):
    """kid each member's key carries in a key set: explicit one, else RFC 7638 thumbprint (reference)."""
    out = []
    for m in plan["members"]:
        out.append(m["kid"] if m["kid"] is not None else rk.thumbprint(gk.key_from_record(m["key"])))
    return out


def _with_kid(plan, keymode):
    """Header dicts handed to the library (fresh copies); kid placed in the header when the mode needs it."""
    out = []
    for m in plan["members"]:
        p = copy.deepcopy(m["protected"])
        h = copy.deepcopy(m["header"])
        if keymode in ("keyset_kid", "callable_keyset") or (len(plan["members"]) > 1):
            kid = m["kid"] if m["kid"] is not None else rk.thumbprint(gk.key_from_record(m["key"]))
            if p is not None and (plan["ser"] == "compact" or "alg" in p):
                p["kid"] = kid
            else:
                h = dict(h or {})
                h["kid"] = kid
        out.append((p, h))
    return out


def materialize(plan, keymode):
    """Copy of the plan whose header dicts carry the kid the key mode needs (for reference-side signing)."""
    out = copy.deepcopy(plan)
    for m, (p, h) in zip(out["members"], _with_kid(plan, keymode)):
        m["protected"], m["header"] = p, h
    return out


def role_params(role, op: str) -> dict:
    out = {}
    if role and "ops" in role:
        out["key_ops"] = [op]
    if role and "use" in role:
        out["use"] = "sig"
    return out


def jose_keyarg(plan, keymode: str, private: bool, form: str = "dict", op: str | None = None):
    from joserfc.jwk import KeySet
    ms = plan["members"]
    kids = _kids(plan)
    objs = []
    rp = role_params(plan.get("role"), op or ("sign" if private else "verify"))
    for m, kid in zip(ms, kids):
        params = {"kid": m["kid"]} if m["kid"] is not None else None
        if rp:
            params = {**(params or {}), **rp}
        objs.append(jkey(gk.key_from_record(m["key"]), form, private, params))
    if len(ms) > 1 and keymode in ("key", "callable_key", "keyset_nokid", "callable_keyset_nokid", "keyset_single"):
        keymode = "keyset_kid"
    if keymode == "keyset_single":
        # a key set holding exactly the member's key: tokens without kid are acceptable against it
        return KeySet(objs)
    if keymode == "key":
        return objs[0]
    if keymode == "callable_key":
        return lambda obj: objs[0]
    # a key set holding the members' keys plus a decoy of another key type
    decoy = jkey({"kty": "oct", "k": b"decoy-key-0123456789abcdef"}, "dict", True, {"kid": "decoy"})
    if ms[0]["alg"].startswith("HS"):
        decoy = jkey(gk.okp_from_seed("Ed25519", bytes(range(32))), "dict", private, {"kid": "decoy"})
    ks = KeySet(objs + [decoy])
    if keymode in ("keyset_kid", "keyset_nokid"):
        return ks
    if keymode in ("callable_keyset", "callable_keyset_nokid"):
        return lambda obj: ks
    raise ValueError(keymode)


def jose_sign(plan, keymode: str = "key", form: str = "dict"):
    """Produce the token with joserfc.  Returns (token, headers_given)."""
    from joserfc import jws
    from joserfc import rfc7797
    payload = bytes.fromhex(plan["payload_hex"])
    hdrs = _with_kid(plan, keymode)
    keyarg = jose_keyarg(plan, keymode, True, form, "sign")
    if plan["ser"] == "compact":
        p = hdrs[0][0]
        if plan["b64"] is None:
            return jws.serialize_compact(p, payload, keyarg, algorithms=ALL_JWS), hdrs
        return rfc7797.serialize_compact(p, payload, keyarg, algorithms=ALL_JWS), hdrs

    def member(p, h):
        d = {}
        if p is not None:
            d["protected"] = p
        if h is not None:
            d["header"] = h
        return d
    if plan["ser"] == "flattened":
        if plan["b64"] is None:
            return jws.serialize_json(member(*hdrs[0]), payload, keyarg, algorithms=ALL_JWS), hdrs
        return rfc7797.serialize_json(member(*hdrs[0]), payload, keyarg, algorithms=ALL_JWS), hdrs
    return jws.serialize_json([member(p, h) for p, h in hdrs], payload, keyarg, algorithms=ALL_JWS), hdrs


def jose_verify(token, plan, keymode: str = "key", form: str = "dict", private: bool = False, give_payload: bool = True, via_rfc7797: bool = False):
    from joserfc import jws
    from joserfc import rfc7797
    keyarg = jose_keyarg(plan, keymode, private, form, "verify")
    payload = bytes.fromhex(plan["payload_hex"])
    if via_rfc7797 and plan["b64"] is None:
        # the RFC 7797 functions take tokens without the b64 member as well
        if plan["ser"] == "compact":
            return rfc7797.deserialize_compact(token, keyarg, algorithms=ALL_JWS)
        return rfc7797.deserialize_json(token, keyarg, algorithms=ALL_JWS)
    if plan["ser"] == "compact":
        if plan["b64"] is None:
            return jws.deserialize_compact(token, keyarg, algorithms=ALL_JWS)
        return rfc7797.deserialize_compact(token, keyarg, payload=payload if give_payload else None, algorithms=ALL_JWS)
    if plan["b64"] is None:
        return jws.deserialize_json(token, keyarg, algorithms=ALL_JWS)
    return rfc7797.deserialize_json(token, keyarg, algorithms=ALL_JWS)


def ref_sign(plan, spellings=None, detached: bool = False):
    """Produce the token with the reference (arbitrary protected-header spelling)."""
    payload = bytes.fromhex(plan["payload_hex"])
    b64flag = plan["b64"] is not False
    outs = []
    for i, m in enumerate(plan["members"]):
        key = gk.key_from_record(m["key"])
        style, seed = (spellings[i] if spellings else ("canonical", 0))
        p = m["protected"]
        ptext = spell(p, style, seed) if p else None  # an empty protected header is represented by absence (RFC 7515 7.2.1)
        if plan["ser"] == "compact":
            return rjws.make_compact(ptext, payload, m["alg"], key, b64flag, detached)
        outs.append(rjws.make_json_signature(ptext, m["header"] or None, payload, m["alg"], key, b64flag))
    pm = rjws.payload_member(payload, b64flag)
    if plan["ser"] == "flattened":
        return {"payload": pm, **outs[0]}
    return {"payload": pm, "signatures": outs}


def ref_keyres(plan, public: bool = True):
    """Key resolver for the reference verifier: by kid when present, else the single member's key."""
    ms = plan["members"]
    kids = _kids(plan)
    table = {}
    for m, kid in zip(ms, kids):
        k = gk.key_from_record(m["key"])
        table[kid] = rk.public_of(k) if public else k

    def res(header):
        kid = header.get("kid")
        if kid is not None and kid in table:
            return table[kid]
        if len(table) == 1:
            return next(iter(table.values()))
        raise rjws.Reject("no key for kid")
    return res


def ref_verify(token, plan, strict: bool = False, detached_payload=None, keyres=None):
    kr = keyres or ref_keyres(plan)
    if isinstance(token, (str, bytes)):
        return rjws.verify_compact(token, kr, rfc7797=plan["b64"] is not None, detached_payload=detached_payload, strict=strict)
    return rjws.verify_json(token, kr, rfc7797=plan["b64"] is not None, strict=strict)
