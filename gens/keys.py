"""Key strategies.  Keys are reference-form number dicts (see ref/keys.py), built from generated material
with `cryptography` (public point derivation only) or taken from the committed RSA pool - never from joserfc."""
from __future__ import annotations
import functools
import json
import os

from hypothesis import strategies as st
from cryptography.hazmat.primitives.asymmetric import ec as cec, ed25519, ed448, x25519, x448

from ref.ec import CURVES
from ref.okp import OKP_SIZES

_POOL = os.path.join(os.path.dirname(os.path.dirname(os.path.abspath(__file__))), "keys", "pool.json")
_CCURVE = {"P-256": cec.SECP256R1, "P-384": cec.SECP384R1, "P-521": cec.SECP521R1, "secp256k1": cec.SECP256K1}
_OKPCLS = {"Ed25519": ed25519.Ed25519PrivateKey, "Ed448": ed448.Ed448PrivateKey,
           "X25519": x25519.X25519PrivateKey, "X448": x448.X448PrivateKey}


@functools.lru_cache(None)
def pool():
    with open(_POOL) as f:
        return json.load(f)


@functools.lru_cache(None)
def rsa_pool():
    out = []
    for k in pool()["RSA"]:
        out.append({"kty": "RSA", **{m: int(k[m], 16) for m in ("n", "e", "d", "p", "q", "dp", "dq", "qi")}, "bits": k["bits"]})
    return out


def rsa_key(min_bits=1024, max_bits=4096):
    ks = [dict((a, b) for a, b in k.items() if a != "bits") for k in rsa_pool() if min_bits <= k["bits"] <= max_bits]
    return st.sampled_from(ks)


def ec_from_d(crv: str, d: int) -> dict:
    pn = cec.derive_private_key(d, _CCURVE[crv]()).public_key().public_numbers()
    return {"kty": "EC", "crv": crv, "x": pn.x, "y": pn.y, "d": d}


def ec_key(crv: str, special_weight: bool = True):
    c = CURVES[crv]
    uni = st.integers(1, c.n - 1)
    if not special_weight:
        return uni.map(lambda d: ec_from_d(crv, d))
    specials = [int(v, 16) for v in pool()["EC_special"][crv].values()]
    return st.one_of(uni, uni, st.sampled_from(specials)).map(lambda d: ec_from_d(crv, d))


def okp_from_seed(crv: str, seed: bytes) -> dict:
    k = _OKPCLS[crv].from_private_bytes(seed)
    return {"kty": "OKP", "crv": crv, "x": k.public_key().public_bytes_raw(), "d": seed}


def okp_key(crv: str):
    n = OKP_SIZES[crv]
    specials = [bytes.fromhex(v) for v in pool()["OKP_special"][crv].values()]
    return st.one_of(st.binary(min_size=n, max_size=n), st.binary(min_size=n, max_size=n),
                     st.sampled_from(specials)).map(lambda s: okp_from_seed(crv, s))


def oct_key(min_size=1, max_size=96, sizes=None):
    if sizes:
        return st.sampled_from(sizes).flatmap(lambda n: st.binary(min_size=n, max_size=n)).map(lambda k: {"kty": "oct", "k": k})
    return st.binary(min_size=min_size, max_size=max_size).map(lambda k: {"kty": "oct", "k": k})


JWS_ALGS = ["HS256", "HS384", "HS512", "RS256", "RS384", "RS512", "ES256", "ES384", "ES512",
            "PS256", "PS384", "PS512", "EdDSA", "ES256K"]
ES_CRV = {"ES256": "P-256", "ES384": "P-384", "ES512": "P-521", "ES256K": "secp256k1"}


_WS = [b" ", b"\n", b"\r\n", b"\t", b"\x0b", b"\x0c", b""]
# secrets whose first / last octets are blanks or line breaks: octets of the key like any other
oct_bordered = st.tuples(st.sampled_from(_WS), st.binary(min_size=1, max_size=40), st.sampled_from(_WS)).map(lambda t: {"kty": "oct", "k": t[0] + t[1] + t[2]})


def jws_key_for(alg: str):
    if alg.startswith("HS") or alg == "none":
        return st.one_of(oct_key(1, 80), oct_key(1, 80), oct_bordered)
    if alg in ("PS512",):
        return rsa_key(2048, 4096)
    if alg[:2] in ("RS", "PS"):
        return rsa_key(1024, 4096)
    if alg in ES_CRV:
        return ec_key(ES_CRV[alg])
    if alg == "EdDSA":
        return st.sampled_from(["Ed25519", "Ed448"]).flatmap(okp_key)
    raise ValueError(alg)


def describe(key: dict) -> str:
    """Short class label for a key (for distinct/coverage keys)."""
    kty = key["kty"]
    if kty == "oct":
        return f"oct{len(key['k']) * 8}"
    if kty == "RSA":
        return f"RSA{key['n'].bit_length()}"
    if kty == "EC":
        c = CURVES[key["crv"]]
        short = [m for m in ("x", "y", "d") if m in key and (key[m].bit_length() + 7) // 8 < (c.size if m != "d" else c.nsize)]
        return f"EC:{key['crv']}" + (":short-" + "".join(short) if short else "")
    return f"OKP:{key['crv']}" + (":lead0" if key["x"][0] == 0 else "")


def key_to_record(key: dict) -> dict:
    """JSON-able form of a reference key (conformant private JWK)."""
    from ref.keys import export_jwk
    return export_jwk(key, private=True)


def key_from_record(jwk: dict) -> dict:
    from ref.keys import parse_jwk
    return parse_jwk(jwk, strict=False)
