"""Conversions between reference keys (number dicts) and `cryptography` objects / PEM / DER (harness side)."""
from __future__ import annotations
from cryptography.hazmat.primitives import serialization as ser
from cryptography.hazmat.primitives.asymmetric import ec as cec, rsa as crsa, ed25519, ed448, x25519, x448

_CCURVE = {"P-256": cec.SECP256R1, "P-384": cec.SECP384R1, "P-521": cec.SECP521R1, "secp256k1": cec.SECP256K1}
_CNAME = {"secp256r1": "P-256", "secp384r1": "P-384", "secp521r1": "P-521", "secp256k1": "secp256k1"}
_OKP_PRIV = {"Ed25519": ed25519.Ed25519PrivateKey, "Ed448": ed448.Ed448PrivateKey, "X25519": x25519.X25519PrivateKey, "X448": x448.X448PrivateKey}
_OKP_PUB = {"Ed25519": ed25519.Ed25519PublicKey, "Ed448": ed448.Ed448PublicKey, "X25519": x25519.X25519PublicKey, "X448": x448.X448PublicKey}


def to_crypto(key: dict, private: bool = True):
    kty = key["kty"]
    if kty == "RSA":
        pub = crsa.RSAPublicNumbers(key["e"], key["n"])
        if private and "d" in key:
            return crsa.RSAPrivateNumbers(key["p"], key["q"], key["d"], key["dp"], key["dq"], key["qi"], pub).private_key()
        return pub.public_key()
    if kty == "EC":
        pub = cec.EllipticCurvePublicNumbers(key["x"], key["y"], _CCURVE[key["crv"]]())
        if private and "d" in key:
            return cec.EllipticCurvePrivateNumbers(key["d"], pub).private_key()
        return pub.public_key()
    if kty == "OKP":
        if private and "d" in key:
            return _OKP_PRIV[key["crv"]].from_private_bytes(key["d"])
        return _OKP_PUB[key["crv"]].from_public_bytes(key["x"])
    raise ValueError(kty)


def from_crypto(k) -> dict:
    if isinstance(k, crsa.RSAPrivateKey):
        n = k.private_numbers()
        return {"kty": "RSA", "n": n.public_numbers.n, "e": n.public_numbers.e, "d": n.d, "p": n.p, "q": n.q,
                "dp": n.dmp1, "dq": n.dmq1, "qi": n.iqmp}
    if isinstance(k, crsa.RSAPublicKey):
        n = k.public_numbers()
        return {"kty": "RSA", "n": n.n, "e": n.e}
    if isinstance(k, cec.EllipticCurvePrivateKey):
        n = k.private_numbers()
        return {"kty": "EC", "crv": _CNAME[k.curve.name], "x": n.public_numbers.x, "y": n.public_numbers.y, "d": n.private_value}
    if isinstance(k, cec.EllipticCurvePublicKey):
        n = k.public_numbers()
        return {"kty": "EC", "crv": _CNAME[k.curve.name], "x": n.x, "y": n.y}
    for crv, cls in _OKP_PRIV.items():
        if isinstance(k, cls):
            return {"kty": "OKP", "crv": crv, "x": k.public_key().public_bytes(ser.Encoding.Raw, ser.PublicFormat.Raw),
                    "d": k.private_bytes(ser.Encoding.Raw, ser.PrivateFormat.Raw, ser.NoEncryption())}
    for crv, cls in _OKP_PUB.items():
        if isinstance(k, cls):
            return {"kty": "OKP", "crv": crv, "x": k.public_bytes(ser.Encoding.Raw, ser.PublicFormat.Raw)}
    raise ValueError(type(k))


def to_pem(key: dict, private: bool = True, der: bool = False, password: bytes | None = None, fmt: str = "pkcs8") -> bytes:
    k = to_crypto(key, private)
    encd = ser.Encoding.DER if der else ser.Encoding.PEM
    if private and "d" in key:
        f = {"pkcs8": ser.PrivateFormat.PKCS8, "traditional": ser.PrivateFormat.TraditionalOpenSSL, "openssh": ser.PrivateFormat.OpenSSH}[fmt]
        if fmt == "openssh":
            encd = ser.Encoding.PEM
        return k.private_bytes(encd, f, ser.BestAvailableEncryption(password) if password else ser.NoEncryption())
    if fmt == "openssh":
        return k.public_bytes(ser.Encoding.OpenSSH, ser.PublicFormat.OpenSSH)
    if fmt == "pkcs1" and key["kty"] == "RSA":
        return k.public_bytes(encd, ser.PublicFormat.PKCS1)
    return k.public_bytes(encd, ser.PublicFormat.SubjectPublicKeyInfo)


def load_pem(data: bytes, password: bytes | None = None) -> dict:
    if b"PRIVATE" in data:
        return from_crypto(ser.load_pem_private_key(data, password))
    if data.startswith(b"-----"):
        return from_crypto(ser.load_pem_public_key(data))
    try:
        return from_crypto(ser.load_der_private_key(data, password))
    except ValueError:
        return from_crypto(ser.load_der_public_key(data))
