"""Spell a JSON header object in different (equivalent) ways: whitespace, member order, escapes."""
from __future__ import annotations
import json
import random

from hypothesis import strategies as st

STYLES = ["canonical", "whitespace", "reordered", "escaped", "mixed"]
_WS = [" ", "  ", "\n", "\r\n", "\t", ""]


def _str(s: str, rnd: random.Random, escape: bool) -> str:
    if not escape:
        return json.dumps(s, ensure_ascii=rnd.random() < 0.5)
    out = ['"']
    for ch in s:
        o = ord(ch)
        r = rnd.random()
        if ch in '"\\' or o < 0x20:
            out.append(json.dumps(ch)[1:-1])
        elif ch == "/" and r < 0.5:
            out.append("\\/")
        elif r < 0.35:
            if o > 0xFFFF:
                o -= 0x10000
                out.append("\\u%04x\\u%04x" % (0xD800 + (o >> 10), 0xDC00 + (o & 0x3FF)))
            else:
                out.append(("\\u%04x" if rnd.random() < 0.5 else "\\u%04X") % o)
        else:
            out.append(ch)
    out.append('"')
    return "".join(out)


def _val(v, rnd, ws, escape, reorder) -> str:
    w = (lambda: rnd.choice(_WS)) if ws else (lambda: "")
    if isinstance(v, dict):
        items = list(v.items())
        if reorder:
            rnd.shuffle(items)
        return "{" + w() + ",".join(w() + _str(k, rnd, escape) + w() + ":" + w() + _val(x, rnd, ws, escape, reorder) + w()
                                    for k, x in items) + "}"
    if isinstance(v, list):
        return "[" + w() + ",".join(w() + _val(x, rnd, ws, escape, reorder) + w() for x in v) + "]"
    if isinstance(v, str):
        return _str(v, rnd, escape)
    return json.dumps(v)


def spell(header: dict, style: str, seed: int) -> bytes:
    rnd = random.Random(seed)
    if style == "canonical":
        return json.dumps(header, separators=(",", ":")).encode("utf-8")
    ws = style in ("whitespace", "mixed")
    esc = style in ("escaped", "mixed")
    reorder = style in ("reordered", "mixed")
    text = _val(header, rnd, ws, esc, reorder)
    if ws:
        text = rnd.choice(_WS) + text + rnd.choice(_WS)
    assert json.loads(text) == header, (text, header)
    return text.encode("utf-8")


spelling = st.tuples(st.sampled_from(STYLES), st.integers(0, 2**32))
