"""Run the atheris supplement (fuzz/atheris_driver.py) as a shard and merge its findings."""
from __future__ import annotations
import json
import os
import shutil
import subprocess
import sys
import tempfile

from harness.core import VERIF, REPO


def run_atheris(ctx, pid: str, seconds: int, mod) -> None:
    deps = os.path.join(VERIF, ".deps")
    if not os.path.isdir(os.path.join(deps, "atheris")):
        ctx.notes.append("atheris not installed (setup.sh installs it from the offline wheelhouse): supplement skipped")
        return
    out = tempfile.mkdtemp(prefix=f"ath-{pid}-", dir=os.path.join(VERIF, "replays") if os.path.isdir(os.path.join(VERIF, "replays")) else None)
    try:
        env = dict(os.environ, VERIF_REPO=REPO)
        cmd = [sys.executable, os.path.join(VERIF, "fuzz", "atheris_driver.py"), pid, out, f"-max_total_time={seconds}",
               f"-seed={ctx.derive('atheris') % (2**31 - 1) + 1}", "-max_len=8192", "-len_control=0"]
        r = subprocess.run(cmd, env=env, capture_output=True, text=True, timeout=seconds + 300)
        n = 0
        try:
            n = json.load(open(os.path.join(out, "stats.json")))["n"]
        except Exception:
            pass
        cov = [l for l in r.stderr.splitlines() if " cov: " in l][-1:] or [""]
        ctx.count("atheris-executions", n)
        ctx.case(("atheris", ctx.shard), cls="atheris-campaign", sample={"engine": "atheris/libFuzzer via hypothesis fuzz_one_input", "executions": n, "last_status": cov[0][:160]}, n=max(n, 1))
        ctx.case(("atheris2", ctx.shard), cls="atheris-campaign")
        fpath = os.path.join(out, "findings.jsonl")
        if os.path.exists(fpath):
            for line in open(fpath):
                d = json.loads(line)
                # confirm with the check's own replay before reporting
                if d["key"] in (mod.replay(d["record"]) or {}):
                    ctx.finding(d["key"], d["what"] + " [found by the coverage-guided supplement]", d["record"])
        if r.returncode not in (0,) and n == 0:
            ctx.notes.append("atheris run failed: " + r.stderr[-300:])
    finally:
        shutil.rmtree(out, ignore_errors=True)
