"""Core of the verification harness: seeds, per-shard context, sharded execution,
collect-mode findings, known findings, replay files, evidence.

Exit codes of run.py: 0 = held on everything explored, 1 = VIOLATION printed,
2 = harness error (never a violation).
"""
from __future__ import annotations

import hashlib
import importlib
import json
import multiprocessing as mp
import os
import sys
import time
import traceback
from collections import Counter

VERIF = os.path.dirname(os.path.dirname(os.path.abspath(__file__)))
REPO = os.environ.get("VERIF_REPO", "/repo")
NPROC = int(os.environ.get("VERIF_NPROC", "16"))

CHECKS = {
    "C01": "checks.c01_jws_auth", "C02": "checks.c02_jwe_auth",
    "C03": "checks.c03_jws_roundtrip", "C04": "checks.c04_jwe_roundtrip",
    "C05": "checks.c05_allowlist", "C06": "checks.c06_key_suitability",
    "C07": "checks.c07_jws_wire", "C08": "checks.c08_jwe_wire",
    "C09": "checks.c09_jwt", "C10": "checks.c10_claims",
    "C11": "checks.c11_jwk_roundtrip", "C12": "checks.c12_no_private_leak",
    "C13": "checks.c13_thumbprint", "C14": "checks.c14_keyset_kid",
    "C15": "checks.c15_header_validation", "C16": "checks.c16_robustness",
    "C17": "checks.c17_zip_bound", "C18": "checks.c18_randomness",
    "C19": "checks.c19_codecs", "C20": "checks.c20_independence",
}


class HarnessError(Exception):
    """Something is wrong with the harness/reference/generator - exit 2."""


def setup_path() -> None:
    """Put the tree under test first on sys.path and make sure it is the one imported."""
    src = os.path.realpath(os.path.join(REPO, "src"))
    if VERIF not in sys.path:
        sys.path.insert(0, VERIF)
    if sys.path[0] != src:
        sys.path.insert(0, src)
    os.environ["AUTHLIB_JOSERFC_VERIF"] = "1"
    import joserfc  # noqa
    got = os.path.realpath(joserfc.__file__)
    if not got.startswith(src + os.sep):
        raise HarnessError(f"joserfc imported from {got}, expected under {src}")


def derive(seed: int, *parts) -> int:
    h = hashlib.sha256(("/".join([str(seed)] + [str(p) for p in parts])).encode()).digest()
    return int.from_bytes(h[:8], "big")


def digest(obj) -> int:
    if not isinstance(obj, (str, bytes)):
        obj = json.dumps(obj, sort_keys=True, default=_default)
    if isinstance(obj, str):
        obj = obj.encode("utf-8", "surrogatepass")
    return int.from_bytes(hashlib.sha1(obj).digest()[:8], "big")


def _default(o):
    if isinstance(o, (bytes, bytearray)):
        return {"hex": bytes(o).hex()}
    if isinstance(o, (set, frozenset)):
        return sorted(o, key=repr)
    if isinstance(o, tuple):
        return list(o)
    return repr(o)


def jsonable(o, limit: int = 600):
    """Make o JSON-serialisable and truncate long strings (for samples in evidence)."""
    s = json.loads(json.dumps(o, default=_default))

    def cut(x):
        if isinstance(x, str) and len(x) > limit:
            return x[:limit] + f"...(+{len(x) - limit})"
        if isinstance(x, list):
            return [cut(v) for v in x[:40]]
        if isinstance(x, dict):
            return {k: cut(v) for k, v in list(x.items())[:60]}
        return x
    return cut(s)


class Ctx:
    """Per-shard collector handed to a check's run_shard()."""

    MAX_SAMPLES = 6

    def __init__(self, pid: str, tier: str, seed: int, shard: str, budget_s: float):
        self.pid, self.tier, self.seed, self.shard = pid, tier, seed, shard
        self.t0 = time.time()
        self.budget_s = budget_s
        self.evaluations = 0
        self.distinct: set[int] = set()
        self.classes: Counter = Counter()
        self.samples: list = []
        self.findings: dict[str, dict] = {}
        self.dont_care = 0
        self.inconclusive = False
        self.notes: list[str] = []

    # -- seeds / time
    def derive(self, *parts) -> int:
        return derive(self.seed, self.pid, self.shard, *parts)

    def expired(self) -> bool:
        if time.time() - self.t0 > self.budget_s:
            self.inconclusive = True
            return True
        return False

    # -- counting
    def case(self, distinct_key=None, nontrivial: bool = True, cls=None, sample=None, n: int = 1) -> None:
        """One executed case. distinct_key identifies it for distinct_nontrivial."""
        self.evaluations += n
        if nontrivial and distinct_key is not None:
            self.distinct.add(digest(distinct_key))
        if cls is not None:
            if isinstance(cls, (list, tuple, set)):
                for c in cls:
                    self.classes[str(c)] += 1
            else:
                self.classes[str(cls)] += 1
        if sample is not None and len(self.samples) < self.MAX_SAMPLES:
            self.samples.append(jsonable(sample))

    def count(self, cls, n: int = 1) -> None:
        self.classes[str(cls)] += n

    def dontcare(self, cls=None) -> None:
        self.dont_care += 1
        if cls is not None:
            self.classes["dont_care:" + str(cls)] += 1

    def finding(self, key: str, what: str, record) -> None:
        """A violation of the property observed on `record` (replayable case record)."""
        rec = json.loads(json.dumps(record, default=_default))
        size = len(json.dumps(rec))
        f = self.findings.get(key)
        if f is None:
            self.findings[key] = {"key": key, "what": what, "record": rec, "count": 1, "size": size}
        else:
            f["count"] += 1
            if size < f["size"]:
                f.update(what=what, record=rec, size=size)

    def export(self) -> dict:
        return {
            "shard": self.shard, "evaluations": self.evaluations, "distinct": self.distinct,
            "classes": dict(self.classes), "samples": self.samples, "findings": self.findings,
            "dont_care": self.dont_care, "inconclusive": self.inconclusive, "notes": self.notes,
            "wall_s": time.time() - self.t0,
        }


def _run_shard(args):
    pid, tier, seed, name, spec, budget = args
    try:
        setup_path()
        mod = importlib.import_module(CHECKS[pid])
        ctx = Ctx(pid, tier, seed, name, budget)
        mod.run_shard(ctx, spec)
        return ("ok", ctx.export())
    except BaseException:  # harness problem, reported as exit 2
        return ("error", name + "\n" + traceback.format_exc())


def load_known() -> dict:
    path = os.path.join(VERIF, "known_findings.json")
    if not os.path.exists(path):
        return {"open": [], "fixed": []}
    with open(path) as f:
        return json.load(f)


def write_replay(pid: str, finding: dict) -> str:
    d = os.path.join(VERIF, "replays")
    os.makedirs(d, exist_ok=True)
    body = {"property": pid, "key": finding["key"], "what": finding["what"], "record": finding["record"]}
    text = json.dumps(body, indent=1, sort_keys=True)
    name = f"{pid}-{hashlib.sha1(text.encode()).hexdigest()[:12]}.json"
    path = os.path.join(d, name)
    with open(path, "w") as f:
        f.write(text + "\n")
    return path


def replay_keys(mod, record) -> dict:
    """Run a module's replay on a record, returns {key: what}."""
    out = mod.replay(record)
    return dict(out or {})


def run_check(pid: str, tier: str, seed: int) -> int:
    t0 = time.time()
    setup_path()
    mod = importlib.import_module(CHECKS[pid])
    known = load_known()
    open_keys = {e["key"]: e for e in known.get("open", []) if e["property"] == pid}

    violations: list[tuple[dict, str]] = []
    known_hits: Counter = Counter()
    known_what: dict[str, str] = {}

    # 1. regression tier: replay witnesses of fixed findings and committed regressions
    regress_dir = os.path.join(VERIF, "regress", pid)
    n_regress = 0
    if os.path.isdir(regress_dir):
        for fn in sorted(os.listdir(regress_dir)):
            if not fn.endswith(".json"):
                continue
            with open(os.path.join(regress_dir, fn)) as f:
                body = json.load(f)
            n_regress += 1
            try:
                got = replay_keys(mod, body["record"])
            except HarnessError:
                raise
            except Exception as e:
                # a witness that replays cleanly on the repaired tree and now makes the check's own code trip over what the library
                # did: that is a change of behaviour on a recorded input, reported as such (not a harness error)
                got = {f"{pid}:witness-replay-raises:{type(e).__name__}": f"replaying {fn}: {type(e).__name__}: {e}"}
            for k, what in got.items():
                if k in open_keys:
                    known_hits[k] += 1
                    known_what[k] = what
                else:
                    violations.append(({"key": k, "what": what, "record": body["record"], "count": 1},
                                       os.path.join(regress_dir, fn)))

    # 2. generated search, sharded
    shards = mod.shards(tier)
    budget = getattr(mod, "BUDGET_S", {"quick": 100, "thorough": 1500})[tier]
    jobs = [(pid, tier, seed, name, spec, budget) for name, spec in shards]
    results = []
    if jobs:
        ctx_mp = mp.get_context("spawn")
        with ctx_mp.Pool(min(NPROC, len(jobs)), maxtasksperchild=1) as pool:
            for r in pool.imap_unordered(_run_shard, jobs, chunksize=1):
                results.append(r)
    errors = [r[1] for r in results if r[0] == "error"]
    if errors:
        for e in errors:
            print("HARNESS-ERROR shard", e, file=sys.stderr)
        return 2
    outs = sorted((r[1] for r in results), key=lambda o: o["shard"])

    evaluations = sum(o["evaluations"] for o in outs)
    distinct: set[int] = set()
    classes: Counter = Counter()
    samples: list = []
    findings: dict[str, dict] = {}
    dont_care = 0
    notes: list[str] = []
    inconclusive = []
    for o in outs:
        distinct |= o["distinct"]
        classes.update(o["classes"])
        for s in o["samples"]:
            if len(samples) < 12:
                samples.append(s)
        dont_care += o["dont_care"]
        notes += o["notes"]
        if o["inconclusive"]:
            inconclusive.append(o["shard"])
        for k, f in o["findings"].items():
            g = findings.get(k)
            if g is None:
                findings[k] = dict(f)
            else:
                g["count"] += f["count"]
                if f["size"] < g["size"]:
                    g.update(what=f["what"], record=f["record"], size=f["size"])

    for k, f in sorted(findings.items()):
        if k in open_keys:
            known_hits[k] += f["count"]
            known_what[k] = f["what"]
            continue
        # reduce the witness, confirm it replays, write the replay file
        rec = f["record"]
        try:
            from harness.reduce import reduce_record
            rec2 = reduce_record(rec, lambda r: k in replay_keys(mod, r), budget=250)
            if rec2 is not None:
                f = dict(f, record=rec2)
        except Exception:
            traceback.print_exc()
        path = write_replay(pid, f)
        violations.append((f, path))

    # 3. vacuity floors
    floor_fail = []
    # floors guard against a degenerate generator, not against a slow machine: they are applied at 40 % of the value a module
    # declares as typical, and not at all when a shard ran out of its time budget
    for cls, minimum in getattr(mod, "FLOORS", {}).get(tier, {}).items():
        minimum = int(minimum * 0.4)
        if classes.get(cls, 0) < minimum and not inconclusive:
            floor_fail.append(f"{cls}: {classes.get(cls, 0)} < {minimum}")

    wall = time.time() - t0
    level = getattr(mod, "LEVEL", "exploration")
    cov = {
        "evaluations": evaluations,
        "distinct_nontrivial": len(distinct),
        "rule": mod.RULE,
        "samples": samples,
        "classes": dict(sorted(classes.items())),
        "dont_care": dont_care,
        "known_hits": dict(known_hits),
        "regression_replays": n_regress,
        "shards": len(outs),
        "inconclusive_shards": inconclusive,
        "violating_keys": [f["key"] for f, _ in violations],
        "exhaustive": bool(getattr(mod, "EXHAUSTIVE", {}).get(tier, False)),
    }
    if notes:
        cov["notes"] = notes[:20]
    ev = {
        "property_id": pid, "tier": tier, "seed": seed, "level": level,
        "coverage": cov, "assumptions": list(getattr(mod, "ASSUMPTIONS", [])),
        "wall_s": round(wall, 2), "violations": len(violations),
        "tree": REPO,
    }
    os.makedirs(os.path.join(VERIF, "evidence"), exist_ok=True)
    with open(os.path.join(VERIF, "evidence", f"{pid}.json"), "w") as f:
        json.dump(ev, f, indent=1, sort_keys=True)
        f.write("\n")

    for k in sorted(known_hits):
        print(f"KNOWN-FINDING: property={pid} {k} {open_keys[k].get('what', known_what.get(k, ''))} (hits={known_hits[k]})")
    for k in sorted(open_keys):
        if k not in known_hits:
            print(f"note: listed finding {k} was not reproduced in this run", file=sys.stderr)
    if floor_fail:
        print(f"HARNESS-ERROR generator degenerate for {pid}: " + "; ".join(floor_fail), file=sys.stderr)
        if not violations:
            return 2
    for f, path in violations:
        print(f"VIOLATION property={pid} replay={path}")
        print(f"  key={f['key']} count={f.get('count')} :: {f['what']}"[:600])
    print(f"{pid} {tier} seed={seed}: evaluations={evaluations} distinct_nontrivial={len(distinct)} "
          f"dont_care={dont_care} known={sum(known_hits.values())} violations={len(violations)} wall={wall:.1f}s"
          + (f" inconclusive={inconclusive}" if inconclusive else ""))
    return 1 if violations else 0


def run_replay(path: str) -> int:
    setup_path()
    with open(path) as f:
        body = json.load(f)
    pid = body["property"]
    mod = importlib.import_module(CHECKS[pid])
    got = replay_keys(mod, body["record"])
    if body.get("key") in got or (body.get("key") is None and got):
        print(f"VIOLATION property={pid} replay={path}")
        for k, w in got.items():
            print(f"  key={k} :: {w}"[:800])
        return 1
    print(f"replay {path}: not reproduced (keys now: {sorted(got)})")
    return 0
