"""Run a function in a forked child of the current (single-threaded) process and return its JSON-able result.
Used to give every history / matrix cell pristine process state, so that a recorded case is self-contained and replays in a fresh
process, and so that state leaked by one case cannot mask or fake a finding in the next."""
from __future__ import annotations
import json
import os

from harness.core import HarnessError


def in_child(fn):
    r, w = os.pipe()
    pid = os.fork()
    if pid == 0:
        try:
            os.close(r)
            try:
                out = {"ok": fn()}
            except BaseException as e:  # noqa
                import traceback
                out = {"error": f"{type(e).__name__}: {e}\n{traceback.format_exc()[-1500:]}"}
            data = json.dumps(out).encode()
            while data:
                n = os.write(w, data)
                data = data[n:]
        finally:
            os._exit(0)
    os.close(w)
    chunks = []
    while True:
        chunk = os.read(r, 1 << 16)
        if not chunk:
            break
        chunks.append(chunk)
    os.close(r)
    os.waitpid(pid, 0)
    out = json.loads(b"".join(chunks) or b'{"error": "child died without output"}')
    if "error" in out:
        raise HarnessError("forked child failed: " + out["error"])
    return out["ok"]
