"""Hypothesis driver used as a *generator* in collect mode (the body records findings
instead of raising, so the search continues behind the first failure)."""
from __future__ import annotations
import hypothesis
from hypothesis import HealthCheck, Phase, given, settings


class _BudgetSpent(Exception):
    """Leaves the generation loop once the shard's time budget is used up (the shard is then reported inconclusive, never as a finding):
    without it Hypothesis goes on generating the remaining examples, which for the heavy strategies costs as much as running them."""


def drive(ctx, name: str, strategy, body, max_examples: int, phases=None) -> None:
    """Run body(case) on max_examples draws of strategy, seeded from VERIF_SEED."""
    def wrapped(case):
        if ctx.expired():
            raise _BudgetSpent()
        body(case)

    test = given(strategy)(wrapped)
    test = settings(
        max_examples=max_examples, database=None, deadline=None, derandomize=False,
        report_multiple_bugs=False, suppress_health_check=list(HealthCheck),
        phases=phases or (Phase.explicit, Phase.generate),
    )(test)
    test = hypothesis.seed(ctx.derive(name))(test)
    try:
        test()
    except _BudgetSpent:
        pass
    except Exception as e:
        # Hypothesis re-executes some examples (replay of the failing one, its own consistency checks); when the budget runs out
        # between two executions of one example it reports the difference as flakiness. That is still only the budget.
        if not (ctx.inconclusive and "_BudgetSpent" in (repr(e) + "".join(repr(x) for x in getattr(e, "exceptions", ())))):
            raise


def drive_machine(ctx, name: str, machine_cls, max_examples: int, steps: int) -> None:
    from hypothesis.stateful import run_state_machine_as_test
    m = hypothesis.seed(ctx.derive(name))(machine_cls)
    run_state_machine_as_test(m, settings=settings(
        max_examples=max_examples, stateful_step_count=steps, database=None, deadline=None,
        derandomize=False, report_multiple_bugs=False, suppress_health_check=list(HealthCheck),
        phases=(Phase.explicit, Phase.generate),
    ))
