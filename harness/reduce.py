"""Bounded structural reducer for JSON case records (own shrinker for collect mode).

reduce_record(record, still_fails, budget) tries deletions / simplifications of dict
members, list elements, strings and integers, keeping a change whenever
still_fails(candidate) is True.  Exceptions inside still_fails count as False.
"""
from __future__ import annotations
import copy
import json


def _paths(x, pre=()):
    yield pre
    if isinstance(x, dict):
        for k in list(x):
            yield from _paths(x[k], pre + (k,))
    elif isinstance(x, list):
        for i in range(len(x)):
            yield from _paths(x[i], pre + (i,))


def _get(x, path):
    for p in path:
        x = x[p]
    return x


def _set(x, path, v):
    for p in path[:-1]:
        x = x[p]
    x[path[-1]] = v


def _delete(x, path):
    for p in path[:-1]:
        x = x[p]
    del x[path[-1]]


PROTECT = {"key", "keys", "sender", "jwk", "token", "token2"}


def reduce_record(record, still_fails, budget=250, protect=PROTECT):
    """protect: dict member names below which nothing is touched (key material, stored tokens)."""
    state = {"n": 0}

    def ok(c):
        if state["n"] >= budget:
            return False
        state["n"] += 1
        try:
            return bool(still_fails(c))
        except Exception:
            return False

    best = copy.deepcopy(record)
    if not ok(best):
        return None  # not deterministic / does not replay: keep the original witness
    improved = True
    while improved and state["n"] < budget:
        improved = False
        for path in sorted(_paths(best), key=lambda p: -len(p)):
            if state["n"] >= budget:
                break
            if not path:
                continue
            if any(isinstance(p, str) and p in protect for p in path[:-1]) or (isinstance(path[-1], str) and path[-1] in protect):
                continue
            try:
                cur = _get(best, path)
            except (KeyError, IndexError, TypeError):
                continue
            cands = []
            c = copy.deepcopy(best)
            try:
                _delete(c, path)
                cands.append(c)
            except Exception:
                pass
            if isinstance(cur, str) and len(cur) > 24:  # short strings are enum-like (alg names, forms): keep
                for v in (cur[: len(cur) // 2], cur[len(cur) // 2:]):
                    c = copy.deepcopy(best)
                    _set(c, path, v)
                    cands.append(c)
            elif isinstance(cur, int) and not isinstance(cur, bool) and cur not in (0, 1):
                for v in (0, cur // 2):
                    c = copy.deepcopy(best)
                    _set(c, path, v)
                    cands.append(c)
            elif isinstance(cur, list) and len(cur) > 1:
                c = copy.deepcopy(best)
                _set(c, path, cur[: len(cur) // 2])
                cands.append(c)
            for c in cands:
                if len(json.dumps(c)) < len(json.dumps(best)) and ok(c):
                    best = c
                    improved = True
                    break
    return best
