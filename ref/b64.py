"""Independent base64url codec (RFC 4648 section 5, no padding), written from the RFC
text over plain integer arithmetic - shares nothing with joserfc.util / base64."""
ALPHABET = "ABCDEFGHIJKLMNOPQRSTUVWXYZabcdefghijklmnopqrstuvwxyz0123456789-_"
_REV = {c: i for i, c in enumerate(ALPHABET)}


class B64Error(ValueError):
    pass


def encode(data: bytes) -> str:
    out = []
    n = len(data)
    for i in range(0, n - n % 3, 3):
        v = (data[i] << 16) | (data[i + 1] << 8) | data[i + 2]
        out.append(ALPHABET[v >> 18] + ALPHABET[(v >> 12) & 63] + ALPHABET[(v >> 6) & 63] + ALPHABET[v & 63])
    r = n % 3
    if r == 1:
        v = data[-1] << 4
        out.append(ALPHABET[v >> 6] + ALPHABET[v & 63])
    elif r == 2:
        v = ((data[-2] << 8) | data[-1]) << 2
        out.append(ALPHABET[v >> 12] + ALPHABET[(v >> 6) & 63] + ALPHABET[v & 63])
    return "".join(out)


def decode(text, strict_bits: bool = False) -> bytes:
    """Decode unpadded base64url.  Raises B64Error on any character outside the
    alphabet and on impossible length.  strict_bits additionally refuses non-zero
    trailing bits (non-canonical encodings)."""
    if isinstance(text, (bytes, bytearray)):
        try:
            text = bytes(text).decode("ascii")
        except UnicodeDecodeError:
            raise B64Error("non-ascii")
    n = len(text)
    if n % 4 == 1:
        raise B64Error("impossible length")
    acc = 0
    bits = 0
    out = bytearray()
    for ch in text:
        v = _REV.get(ch)
        if v is None:
            raise B64Error(f"bad character {ch!r}")
        acc = (acc << 6) | v
        bits += 6
        if bits >= 8:
            bits -= 8
            out.append((acc >> bits) & 0xFF)
            acc &= (1 << bits) - 1
    if strict_bits and acc:
        raise B64Error("non-canonical trailing bits")
    return bytes(out)


def canonical(text: str) -> bool:
    try:
        return encode(decode(text)) == text
    except B64Error:
        return False


def int_to_b64(n: int, length: int | None = None) -> str:
    if n < 0:
        raise ValueError("negative")
    if length is None:
        length = max(1, (n.bit_length() + 7) // 8)
    return encode(n.to_bytes(length, "big"))


def b64_to_int(text: str) -> int:
    return int.from_bytes(decode(text), "big")
