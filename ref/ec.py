"""Pure-Python short-Weierstrass elliptic curves (P-256, P-384, P-521, secp256k1):
point validation, scalar multiplication (Jacobian), ECDSA (RFC 6979 nonces) and ECDH.
Independent of cryptography/OpenSSL and of joserfc."""
from __future__ import annotations
import hashlib
import hmac


class Curve:
    def __init__(self, name, p, a, b, gx, gy, n):
        self.name, self.p, self.a, self.b, self.gx, self.gy, self.n = name, p, a, b, gx, gy, n
        self.bits = p.bit_length()
        self.size = (self.bits + 7) // 8       # coordinate / scalar octet length
        self.nsize = (n.bit_length() + 7) // 8

    def on_curve(self, x, y) -> bool:
        p = self.p
        if not (0 <= x < p and 0 <= y < p):
            return False
        return (y * y - (x * x * x + self.a * x + self.b)) % p == 0

    # Jacobian arithmetic -------------------------------------------------
    def _dbl(self, P):
        X, Y, Z = P
        p = self.p
        if Y == 0 or Z == 0:
            return (0, 1, 0)
        S = 4 * X * Y * Y % p
        M = (3 * X * X + self.a * pow(Z, 4, p)) % p
        X2 = (M * M - 2 * S) % p
        Y2 = (M * (S - X2) - 8 * pow(Y, 4, p)) % p
        Z2 = 2 * Y * Z % p
        return (X2, Y2, Z2)

    def _add(self, P, Q):
        p = self.p
        if P[2] == 0:
            return Q
        if Q[2] == 0:
            return P
        X1, Y1, Z1 = P
        X2, Y2, Z2 = Q
        Z1Z1 = Z1 * Z1 % p
        Z2Z2 = Z2 * Z2 % p
        U1 = X1 * Z2Z2 % p
        U2 = X2 * Z1Z1 % p
        S1 = Y1 * Z2 * Z2Z2 % p
        S2 = Y2 * Z1 * Z1Z1 % p
        if U1 == U2:
            if S1 != S2:
                return (0, 1, 0)
            return self._dbl(P)
        H = (U2 - U1) % p
        R = (S2 - S1) % p
        HH = H * H % p
        HHH = H * HH % p
        V = U1 * HH % p
        X3 = (R * R - HHH - 2 * V) % p
        Y3 = (R * (V - X3) - S1 * HHH) % p
        Z3 = H * Z1 * Z2 % p
        return (X3, Y3, Z3)

    def _affine(self, P):
        X, Y, Z = P
        if Z == 0:
            return None
        p = self.p
        zi = pow(Z, -1, p)
        zi2 = zi * zi % p
        return (X * zi2 % p, Y * zi2 * zi % p)

    def mul(self, k: int, point=None):
        """k * point (affine tuple) -> affine tuple or None (infinity)."""
        if point is None:
            point = (self.gx, self.gy)
        k %= self.n
        if k == 0:
            return None
        Q = (0, 1, 0)
        P = (point[0], point[1], 1)
        for bit in bin(k)[2:]:
            Q = self._dbl(Q)
            if bit == "1":
                Q = self._add(Q, P)
        return self._affine(Q)

    def add(self, P, Q):
        if P is None:
            return Q
        if Q is None:
            return P
        return self._affine(self._add((P[0], P[1], 1), (Q[0], Q[1], 1)))

    def public(self, d: int):
        return self.mul(d)

    # ECDH ----------------------------------------------------------------
    def ecdh(self, d: int, peer) -> bytes:
        if not self.on_curve(*peer):
            raise ValueError("peer point not on curve")
        if not 1 <= d < self.n:
            raise ValueError("bad scalar")
        S = self.mul(d, peer)
        if S is None:
            raise ValueError("infinity")
        return S[0].to_bytes(self.size, "big")

    # ECDSA ---------------------------------------------------------------
    def _bits2int(self, b: bytes) -> int:
        v = int.from_bytes(b, "big")
        blen = len(b) * 8
        nlen = self.n.bit_length()
        if blen > nlen:
            v >>= blen - nlen
        return v

    def rfc6979_k(self, d: int, h1: bytes, hashname: str, extra: bytes = b"") -> int:
        n = self.n
        rolen = (n.bit_length() + 7) // 8
        hlen = hashlib.new(hashname).digest_size
        bx = d.to_bytes(rolen, "big") + (self._bits2int(h1) % n).to_bytes(rolen, "big") + extra
        V = b"\x01" * hlen
        K = b"\x00" * hlen
        K = hmac.new(K, V + b"\x00" + bx, hashname).digest()
        V = hmac.new(K, V, hashname).digest()
        K = hmac.new(K, V + b"\x01" + bx, hashname).digest()
        V = hmac.new(K, V, hashname).digest()
        while True:
            T = b""
            while len(T) < rolen:
                V = hmac.new(K, V, hashname).digest()
                T += V
            k = self._bits2int(T)
            if 1 <= k < n:
                return k
            K = hmac.new(K, V + b"\x00", hashname).digest()
            V = hmac.new(K, V, hashname).digest()

    def ecdsa_sign(self, d: int, msg: bytes, hashname: str, extra: bytes = b"") -> tuple[int, int]:
        h1 = hashlib.new(hashname, msg).digest()
        e = self._bits2int(h1)
        n = self.n
        ctr = 0
        while True:
            k = self.rfc6979_k(d, h1, hashname, extra + (bytes([ctr]) if ctr else b""))
            R = self.mul(k)
            r = R[0] % n
            s = pow(k, -1, n) * (e + r * d) % n
            if r and s:
                return r, s
            ctr += 1

    def ecdsa_verify(self, Q, msg: bytes, r: int, s: int, hashname: str) -> bool:
        n = self.n
        if not (1 <= r < n and 1 <= s < n):
            return False
        if not self.on_curve(*Q):
            return False
        e = self._bits2int(hashlib.new(hashname, msg).digest())
        w = pow(s, -1, n)
        u1 = e * w % n
        u2 = r * w % n
        P = self.add(self.mul(u1), self.mul(u2, Q))
        if P is None:
            return False
        return P[0] % n == r


P256 = Curve(
    "P-256",
    0xffffffff00000001000000000000000000000000ffffffffffffffffffffffff,
    0xffffffff00000001000000000000000000000000fffffffffffffffffffffffc,
    0x5ac635d8aa3a93e7b3ebbd55769886bc651d06b0cc53b0f63bce3c3e27d2604b,
    0x6b17d1f2e12c4247f8bce6e563a440f277037d812deb33a0f4a13945d898c296,
    0x4fe342e2fe1a7f9b8ee7eb4a7c0f9e162bce33576b315ececbb6406837bf51f5,
    0xffffffff00000000ffffffffffffffffbce6faada7179e84f3b9cac2fc632551,
)
P384 = Curve(
    "P-384",
    0xfffffffffffffffffffffffffffffffffffffffffffffffffffffffffffffffeffffffff0000000000000000ffffffff,
    0xfffffffffffffffffffffffffffffffffffffffffffffffffffffffffffffffeffffffff0000000000000000fffffffc,
    0xb3312fa7e23ee7e4988e056be3f82d19181d9c6efe8141120314088f5013875ac656398d8a2ed19d2a85c8edd3ec2aef,
    0xaa87ca22be8b05378eb1c71ef320ad746e1d3b628ba79b9859f741e082542a385502f25dbf55296c3a545e3872760ab7,
    0x3617de4a96262c6f5d9e98bf9292dc29f8f41dbd289a147ce9da3113b5f0b8c00a60b1ce1d7e819d7a431d7c90ea0e5f,
    0xffffffffffffffffffffffffffffffffffffffffffffffffc7634d81f4372ddf581a0db248b0a77aecec196accc52973,
)
P521 = Curve(
    "P-521",
    2 ** 521 - 1,
    2 ** 521 - 4,
    0x0051953eb9618e1c9a1f929a21a0b68540eea2da725b99b315f3b8b489918ef109e156193951ec7e937b1652c0bd3bb1bf073573df883d2c34f1ef451fd46b503f00,
    0x00c6858e06b70404e9cd9e3ecb662395b4429c648139053fb521f828af606b4d3dbaa14b5e77efe75928fe1dc127a2ffa8de3348b3c1856a429bf97e7e31c2e5bd66,
    0x011839296a789a3bc0045c8a5fb42c7d1bd998f54449579b446817afbd17273e662c97ee72995ef42640c550b9013fad0761353c7086a272c24088be94769fd16650,
    0x1fffffffffffffffffffffffffffffffffffffffffffffffffffffffffffffffffa51868783bf2f966b7fcc0148f709a5d03bb5c9b8899c47aebb6fb71e91386409,
)
SECP256K1 = Curve(
    "secp256k1",
    2 ** 256 - 2 ** 32 - 977,
    0,
    7,
    0x79be667ef9dcbbac55a06295ce870b07029bfcdb2dce28d959f2815b16f81798,
    0x483ada7726a3c4655da4fbfc0e1108a8fd17b448a68554199c47d08ffb10d4b8,
    0xfffffffffffffffffffffffffffffffebaaedce6af48a03bbfd25e8cd0364141,
)
CURVES = {c.name: c for c in (P256, P384, P521, SECP256K1)}
