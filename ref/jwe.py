"""Reference JWE (RFC 7516 / 7518 s.4-5, draft-madden-jose-ecdh-1pu-04, draft-amringer-jose-chacha-02),
independent of joserfc.  Every random value is injectable.

Primitives: pycryptodome (AES-ECB/CBC/GCM, RSA paddings), hashlib/hmac (PBKDF2, HMAC, Concat KDF), own RFC 3394
key wrap, pure-Python ECDH (Weierstrass and Montgomery), zlib raw DEFLATE; ChaCha20-Poly1305 from
`cryptography` (joserfc uses pycryptodome for it) with a hand-written HChaCha20 for XC20P.
"""
from __future__ import annotations
import hashlib
import hmac
import json
import struct
import zlib

from Crypto.Cipher import AES, PKCS1_OAEP, PKCS1_v1_5
from Crypto.Hash import SHA1, SHA256
from Crypto.PublicKey import RSA

from . import b64
from .ec import CURVES
from .okp import x_exchange, x_public, OKP_SIZES


class Reject(Exception):
    pass


ENCS = {  # name -> (cek bytes, iv bytes)
    "A128CBC-HS256": (32, 16), "A192CBC-HS384": (48, 16), "A256CBC-HS512": (64, 16),
    "A128GCM": (16, 12), "A192GCM": (24, 12), "A256GCM": (32, 12), "C20P": (32, 12), "XC20P": (32, 24),
}
CBC_HASH = {"A128CBC-HS256": "sha256", "A192CBC-HS384": "sha384", "A256CBC-HS512": "sha512"}
KW_SIZE = {"A128KW": 16, "A192KW": 24, "A256KW": 32}
GCMKW_SIZE = {"A128GCMKW": 16, "A192GCMKW": 24, "A256GCMKW": 32}
PBES2 = {"PBES2-HS256+A128KW": ("sha256", 16), "PBES2-HS384+A192KW": ("sha384", 24), "PBES2-HS512+A256KW": ("sha512", 32)}
RSA_ALGS = ("RSA1_5", "RSA-OAEP", "RSA-OAEP-256")
ECDH_ES = {"ECDH-ES": None, "ECDH-ES+A128KW": 16, "ECDH-ES+A192KW": 24, "ECDH-ES+A256KW": 32}
ECDH_1PU = {"ECDH-1PU": None, "ECDH-1PU+A128KW": 16, "ECDH-1PU+A192KW": 24, "ECDH-1PU+A256KW": 32}
ALGS = list(RSA_ALGS) + list(KW_SIZE) + ["dir"] + list(ECDH_ES) + list(GCMKW_SIZE) + list(PBES2) + list(ECDH_1PU)
DIRECT = ("dir", "ECDH-ES", "ECDH-1PU")


def alg_kty(alg: str):
    if alg in RSA_ALGS:
        return ("RSA",)
    if alg in ECDH_ES or alg in ECDH_1PU:
        return ("EC", "OKP")
    return ("oct",)


# ------------------------------------------------------------------ RFC 3394
_KW_IV = bytes.fromhex("A6A6A6A6A6A6A6A6")


def aes_wrap(kek: bytes, data: bytes) -> bytes:
    if len(data) % 8 or len(data) < 16:
        raise ValueError("key wrap input must be a multiple of 8, at least 16")
    ecb = AES.new(kek, AES.MODE_ECB)
    n = len(data) // 8
    a = _KW_IV
    r = [data[i * 8:(i + 1) * 8] for i in range(n)]
    for j in range(6):
        for i in range(n):
            b = ecb.encrypt(a + r[i])
            t = n * j + i + 1
            a = (int.from_bytes(b[:8], "big") ^ t).to_bytes(8, "big")
            r[i] = b[8:]
    return a + b"".join(r)


def aes_unwrap(kek: bytes, data: bytes) -> bytes:
    if len(data) % 8 or len(data) < 24:
        raise Reject("wrapped key length")
    ecb = AES.new(kek, AES.MODE_ECB)
    n = len(data) // 8 - 1
    a = data[:8]
    r = [data[(i + 1) * 8:(i + 2) * 8] for i in range(n)]
    for j in range(5, -1, -1):
        for i in range(n - 1, -1, -1):
            t = n * j + i + 1
            b = ecb.decrypt((int.from_bytes(a, "big") ^ t).to_bytes(8, "big") + r[i])
            a = b[:8]
            r[i] = b[8:]
    if not hmac.compare_digest(a, _KW_IV):
        raise Reject("key unwrap integrity check failed")
    return b"".join(r)


# ------------------------------------------------------------------ content encryption
def _cbc_tag(enc, mac_key, aad, iv, ct):
    al = struct.pack(">Q", len(aad) * 8)
    full = hmac.new(mac_key, aad + iv + ct + al, CBC_HASH[enc]).digest()
    return full[: len(mac_key)]


def _hchacha20(key: bytes, nonce16: bytes) -> bytes:
    def rotl(v, c):
        return ((v << c) & 0xffffffff) | (v >> (32 - c))
    st = list(struct.unpack("<4I", b"expand 32-byte k")) + list(struct.unpack("<8I", key)) + list(struct.unpack("<4I", nonce16))

    def qr(a, b, c, d):
        st[a] = (st[a] + st[b]) & 0xffffffff; st[d] = rotl(st[d] ^ st[a], 16)
        st[c] = (st[c] + st[d]) & 0xffffffff; st[b] = rotl(st[b] ^ st[c], 12)
        st[a] = (st[a] + st[b]) & 0xffffffff; st[d] = rotl(st[d] ^ st[a], 8)
        st[c] = (st[c] + st[d]) & 0xffffffff; st[b] = rotl(st[b] ^ st[c], 7)
    for _ in range(10):
        qr(0, 4, 8, 12); qr(1, 5, 9, 13); qr(2, 6, 10, 14); qr(3, 7, 11, 15)
        qr(0, 5, 10, 15); qr(1, 6, 11, 12); qr(2, 7, 8, 13); qr(3, 4, 9, 14)
    return struct.pack("<8I", *(st[0:4] + st[12:16]))


def _chacha(enc, cek, iv):
    from cryptography.hazmat.primitives.ciphers.aead import ChaCha20Poly1305
    if enc == "XC20P":
        return ChaCha20Poly1305(_hchacha20(cek, iv[:16])), b"\x00\x00\x00\x00" + iv[16:]
    return ChaCha20Poly1305(cek), iv


def content_encrypt(enc: str, cek: bytes, iv: bytes, aad: bytes, pt: bytes):
    size, ivsize = ENCS[enc]
    if len(cek) != size or len(iv) != ivsize:
        raise ValueError("cek/iv size")
    if enc in CBC_HASH:
        half = size // 2
        pad = 16 - len(pt) % 16
        ct = AES.new(cek[half:], AES.MODE_CBC, iv).encrypt(pt + bytes([pad]) * pad)
        return ct, _cbc_tag(enc, cek[:half], aad, iv, ct)
    if enc.endswith("GCM"):
        c = AES.new(cek, AES.MODE_GCM, nonce=iv, mac_len=16)
        c.update(aad)
        return c.encrypt_and_digest(pt)
    c, n = _chacha(enc, cek, iv)
    out = c.encrypt(n, pt, aad)
    return out[:-16], out[-16:]


def content_decrypt(enc: str, cek: bytes, iv: bytes, aad: bytes, ct: bytes, tag: bytes) -> bytes:
    if enc not in ENCS:
        raise Reject("unknown enc")
    size, ivsize = ENCS[enc]
    if len(cek) != size:
        raise Reject("cek size")
    if len(iv) != ivsize:
        raise Reject("iv size")
    if enc in CBC_HASH:
        half = size // 2
        if len(tag) != half or not hmac.compare_digest(tag, _cbc_tag(enc, cek[:half], aad, iv, ct)):
            raise Reject("tag mismatch")
        if len(ct) % 16 or not ct:
            raise Reject("ciphertext length")
        p = AES.new(cek[half:], AES.MODE_CBC, iv).decrypt(ct)
        pad = p[-1]
        if not 1 <= pad <= 16 or p[-pad:] != bytes([pad]) * pad:
            raise Reject("padding")
        return p[:-pad]
    if len(tag) != 16:
        raise Reject("tag size")
    if enc.endswith("GCM"):
        c = AES.new(cek, AES.MODE_GCM, nonce=iv, mac_len=16)
        c.update(aad)
        try:
            return c.decrypt_and_verify(ct, tag)
        except ValueError:
            raise Reject("tag mismatch")
    from cryptography.exceptions import InvalidTag
    c, n = _chacha(enc, cek, iv)
    try:
        return c.decrypt(n, ct + tag, aad)
    except InvalidTag:
        raise Reject("tag mismatch")


# ------------------------------------------------------------------ zip
def deflate(data: bytes, level: int = 6) -> bytes:
    c = zlib.compressobj(level, zlib.DEFLATED, -15)
    return c.compress(data) + c.flush()


def inflate(data: bytes, limit: int | None = None, allow_zlib_header: bool = False) -> bytes:
    """Strict raw-DEFLATE inflate: the stream must be complete and nothing may follow it."""
    wbits = -15
    if allow_zlib_header and data[:2] == b"\x78\x9c":
        wbits = 15
    d = zlib.decompressobj(wbits)
    try:
        out = d.decompress(data, (limit + 1) if limit is not None else 0)
    except zlib.error as e:
        raise Reject(f"inflate: {e}")
    if limit is not None and len(out) > limit:
        raise Reject("exceeds limit")
    if not d.eof:
        raise Reject("incomplete deflate stream")
    if d.unused_data:
        raise Reject("trailing data after deflate stream")
    return out


# ------------------------------------------------------------------ Concat KDF / ECDH
def concat_kdf(z: bytes, keylen: int, alg_id: str, apu: bytes, apv: bytes, tag: bytes | None = None) -> bytes:
    def lp(b):
        return struct.pack(">I", len(b)) + b
    other = lp(alg_id.encode("utf-8")) + lp(apu) + lp(apv) + struct.pack(">I", keylen * 8)
    if tag is not None:
        other += lp(tag)
    out = b""
    ctr = 1
    while len(out) < keylen:
        out += hashlib.sha256(struct.pack(">I", ctr) + z + other).digest()
        ctr += 1
    return out[:keylen]


def dh(priv: dict, pub: dict) -> bytes:
    """Raw shared secret between a private reference key and a public one (same kty and curve)."""
    if priv["kty"] != pub["kty"] or priv.get("crv") != pub.get("crv"):
        raise Reject("curve mismatch")
    if "d" not in priv:
        raise Reject("private key needed")
    try:
        if priv["kty"] == "EC":
            return CURVES[priv["crv"]].ecdh(priv["d"], (pub["x"], pub["y"]))
        if priv["kty"] == "OKP" and priv["crv"] in ("X25519", "X448"):
            return x_exchange(priv["crv"], priv["d"], pub["x"])
    except ValueError as e:
        raise Reject(f"ecdh: {e}")
    raise Reject("key not usable for ECDH")


def _hdr_octets(hdr: dict, name: str) -> bytes:
    v = hdr.get(name)
    if v is None:
        return b""
    if not isinstance(v, str):
        raise Reject(f"{name} must be a string")
    try:
        return b64.decode(v)
    except ValueError:
        raise Reject(f"{name} undecodable")


def _agreed_key(alg: str, enc: str, hdr: dict, z: bytes, tag: bytes | None) -> bytes:
    table = ECDH_ES if alg in ECDH_ES else ECDH_1PU
    kw = table[alg]
    if kw is None:
        return concat_kdf(z, ENCS[enc][0], enc, _hdr_octets(hdr, "apu"), _hdr_octets(hdr, "apv"), None)
    return concat_kdf(z, kw, alg, _hdr_octets(hdr, "apu"), _hdr_octets(hdr, "apv"), tag)


def epk_jwk(epk: dict) -> dict:
    from .keys import export_jwk
    return export_jwk(epk, private=False)


def parse_epk(v, strict: bool = True) -> dict:
    from .keys import parse_jwk, JWKError
    if not isinstance(v, dict):
        raise Reject("epk must be an object")
    if "d" in v:
        raise Reject("epk carries private material")
    if not strict and isinstance(v.get("crv"), str):
        # lenient oracle: the kty label of an (unauthenticated) epk does not change the point; the curve decides
        v = dict(v, kty="EC" if v["crv"] in CURVES else "OKP" if v["crv"] in OKP_SIZES else v.get("kty"))
    try:
        return parse_jwk(v, strict=True)
    except JWKError as e:
        raise Reject(f"epk: {e}")


# ------------------------------------------------------------------ RSA
_rsa_cache: dict = {}


def _rsa(key: dict, private: bool):
    ck = (key["n"], private)
    k = _rsa_cache.get(ck)
    if k is None:
        k = RSA.construct((key["n"], key["e"], key["d"], key["p"], key["q"]) if private else (key["n"], key["e"]),
                          consistency_check=False)
        if len(_rsa_cache) > 64:
            _rsa_cache.clear()
        _rsa_cache[ck] = k
    return k


def rsa_encrypt(alg: str, key: dict, cek: bytes) -> bytes:
    k = _rsa(key, False)
    if alg == "RSA1_5":
        return PKCS1_v1_5.new(k).encrypt(cek)
    h = SHA1 if alg == "RSA-OAEP" else SHA256
    return PKCS1_OAEP.new(k, hashAlgo=h).encrypt(cek)


def rsa_decrypt(alg: str, key: dict, ek: bytes, cek_len: int) -> bytes:
    k = _rsa(key, True)
    try:
        if alg == "RSA1_5":
            sentinel = b"\x00" * 7
            out = PKCS1_v1_5.new(k).decrypt(ek, sentinel, expected_pt_len=cek_len)
            if out == sentinel:
                raise Reject("RSA1_5 decryption failed")
            return out
        h = SHA1 if alg == "RSA-OAEP" else SHA256
        return PKCS1_OAEP.new(k, hashAlgo=h).decrypt(ek)
    except (ValueError, TypeError) as e:
        raise Reject(f"rsa: {e}")


# ------------------------------------------------------------------ per-recipient key management
def wrap_for_recipient(alg: str, enc: str, key: dict, hdr: dict, cek: bytes | None, rnd: dict, sender: dict | None = None,
                       tag: bytes | None = None):
    """Returns (cek, encrypted_key, header_additions).  rnd supplies injectable randomness:
    'epk' (private reference key), 'gcmkw_iv', 'p2s', 'p2c'.  For tag-aware 1PU+KW, call after content encryption."""
    add: dict = {}
    if key["kty"] not in alg_kty(alg):
        raise Reject("unsuitable key type")
    if alg == "dir":
        if len(key["k"]) != ENCS[enc][0]:
            raise Reject("dir key size")
        return key["k"], b"", add
    if alg in RSA_ALGS:
        return cek, rsa_encrypt(alg, key, cek), add
    if alg in KW_SIZE:
        if len(key["k"]) != KW_SIZE[alg]:
            raise Reject("kw key size")
        return cek, aes_wrap(key["k"], cek), add
    if alg in GCMKW_SIZE:
        if len(key["k"]) != GCMKW_SIZE[alg]:
            raise Reject("gcmkw key size")
        iv = rnd["gcmkw_iv"]
        c = AES.new(key["k"], AES.MODE_GCM, nonce=iv, mac_len=16)
        ek, t = c.encrypt_and_digest(cek)
        add["iv"] = b64.encode(iv)
        add["tag"] = b64.encode(t)
        return cek, ek, add
    if alg in PBES2:
        hn, klen = PBES2[alg]
        p2s, p2c = rnd["p2s"], rnd["p2c"]
        kek = hashlib.pbkdf2_hmac(hn, key["k"], alg.encode() + b"\x00" + p2s, p2c, klen)
        add["p2s"] = b64.encode(p2s)
        add["p2c"] = p2c
        return cek, aes_wrap(kek, cek), add
    if alg in ECDH_ES or alg in ECDH_1PU:
        epk = rnd["epk"]
        add["epk"] = epk_jwk(epk)
        z = dh(epk, key)
        if alg in ECDH_1PU:
            if sender is None:
                raise Reject("sender key needed")
            z = z + dh(sender, key)
        h2 = dict(hdr)
        k = _agreed_key(alg, enc, h2, z, tag if alg in ECDH_1PU else None)
        if alg in DIRECT:
            return k, b"", add
        return cek, aes_wrap(k, cek), add
    raise Reject(f"unknown alg {alg!r}")


def unwrap_for_recipient(alg, enc: str, key: dict, hdr: dict, ek: bytes, sender: dict | None = None, tag: bytes | None = None,
                         strict: bool = True) -> bytes:
    if not isinstance(alg, str) or alg not in ALGS:
        raise Reject(f"unknown alg {alg!r}")
    if enc not in ENCS:
        raise Reject("unknown enc")
    if key["kty"] not in alg_kty(alg):
        raise Reject("unsuitable key type")
    cek_len = ENCS[enc][0]
    if alg in DIRECT and ek:
        raise Reject("encrypted key must be empty in direct modes")
    if alg == "dir":
        if len(key["k"]) != cek_len:
            raise Reject("dir key size")
        return key["k"]
    if alg in RSA_ALGS:
        if "d" not in key:
            raise Reject("private key needed")
        return rsa_decrypt(alg, key, ek, cek_len)
    if alg in KW_SIZE:
        if len(key["k"]) != KW_SIZE[alg]:
            raise Reject("kw key size")
        return aes_unwrap(key["k"], ek)
    if alg in GCMKW_SIZE:
        if len(key["k"]) != GCMKW_SIZE[alg]:
            raise Reject("gcmkw key size")
        iv, t = _hdr_octets(hdr, "iv"), _hdr_octets(hdr, "tag")
        if len(iv) != 12 or len(t) != 16:
            raise Reject("gcmkw iv/tag size")
        c = AES.new(key["k"], AES.MODE_GCM, nonce=iv, mac_len=16)
        try:
            return c.decrypt_and_verify(ek, t)
        except ValueError:
            raise Reject("gcmkw tag mismatch")
    if alg in PBES2:
        hn, klen = PBES2[alg]
        p2c = hdr.get("p2c")
        if not isinstance(p2c, int) or isinstance(p2c, bool) or p2c < 1:
            raise Reject("p2c")
        if "p2s" not in hdr:
            raise Reject("p2s")
        p2s = _hdr_octets(hdr, "p2s")
        kek = hashlib.pbkdf2_hmac(hn, key["k"], alg.encode() + b"\x00" + p2s, p2c, klen)
        return aes_unwrap(kek, ek)
    # ECDH
    epk = parse_epk(hdr.get("epk"), strict)
    z = dh(key, epk)
    if alg in ECDH_1PU:
        if sender is None:
            raise Reject("sender key needed")
        if enc not in CBC_HASH and alg != "ECDH-1PU":
            raise Reject("1PU+KW requires CBC-HMAC")
        z = z + dh(key, sender)
    k = _agreed_key(alg, enc, hdr, z, tag if alg in ECDH_1PU else None)
    if alg in DIRECT:
        return k
    return aes_unwrap(k, ek)


# ------------------------------------------------------------------ producing whole tokens
def encrypt(protected_text: bytes, protected: dict, plaintext: bytes, recipients: list, enc: str, cek: bytes | None, iv: bytes,
            aad: bytes | None = None, unprotected: dict | None = None, zip_level: int | None = None, raw_zip: bytes | None = None):
    """recipients: list of dict(alg, key, header (per-recipient dict or None), rnd, sender).
    protected_text is fixed by the caller *before* this call, so header additions (epk, p2s, ...) that a
    recipient needs must already be inside protected_text or go to the per-recipient header; this function
    returns the per-recipient additions for the caller to have placed.  To keep things simple the caller passes
    `place`: 'protected' additions must be pre-merged: use prepare_additions() first."""
    pseg = b64.encode(protected_text)
    if aad == b"":
        aad = None
    aad_full = pseg.encode("ascii") + (b"." + b64.encode(aad).encode("ascii") if aad is not None else b"")
    m = plaintext
    if protected.get("zip") == "DEF":
        m = raw_zip if raw_zip is not None else deflate(plaintext, 6 if zip_level is None else zip_level)
    # direct modes fix the CEK
    outs = []
    the_cek = cek
    for r in recipients:
        if r["alg"] in DIRECT:
            hdr = {**protected, **(unprotected or {}), **(r.get("header") or {})}
            the_cek, ek, _ = wrap_for_recipient(r["alg"], enc, r["key"], hdr, None, r["rnd"], r.get("sender"))
    ct, tag = content_encrypt(enc, the_cek, iv, aad_full, m)
    for r in recipients:
        hdr = {**protected, **(unprotected or {}), **(r.get("header") or {})}
        _, ek, _ = wrap_for_recipient(r["alg"], enc, r["key"], hdr, the_cek, r["rnd"], r.get("sender"), tag)
        outs.append(ek)
    return {"protected": pseg, "iv": b64.encode(iv), "ciphertext": b64.encode(ct), "tag": b64.encode(tag),
            "encrypted_keys": [b64.encode(e) for e in outs], "aad": None if aad is None else b64.encode(aad), "cek": the_cek}


def prepare_additions(alg: str, key: dict, rnd: dict, gcmkw_cek: bytes | None = None) -> dict:
    """Header members a recipient contributes (known before encryption): epk / p2s,p2c / (iv,tag need the cek)."""
    add = {}
    if alg in ECDH_ES or alg in ECDH_1PU:
        add["epk"] = epk_jwk(rnd["epk"])
    elif alg in PBES2:
        add["p2s"] = b64.encode(rnd["p2s"])
        add["p2c"] = rnd["p2c"]
    elif alg in GCMKW_SIZE:
        c = AES.new(key["k"], AES.MODE_GCM, nonce=rnd["gcmkw_iv"], mac_len=16)
        _, t = c.encrypt_and_digest(gcmkw_cek)
        add["iv"] = b64.encode(rnd["gcmkw_iv"])
        add["tag"] = b64.encode(t)
    return add


def to_compact(parts: dict) -> str:
    return ".".join([parts["protected"], parts["encrypted_keys"][0], parts["iv"], parts["ciphertext"], parts["tag"]])


def to_json(parts: dict, recipient_headers: list, unprotected: dict | None, flattened: bool) -> dict:
    out = {"protected": parts["protected"], "iv": parts["iv"], "ciphertext": parts["ciphertext"], "tag": parts["tag"]}
    if parts["aad"] is not None:
        out["aad"] = parts["aad"]
    if unprotected:
        out["unprotected"] = unprotected
    recs = []
    for h, ek in zip(recipient_headers, parts["encrypted_keys"]):
        r = {}
        if h:
            r["header"] = h
        if ek:
            r["encrypted_key"] = ek
        recs.append(r)
    if flattened:
        out.update(recs[0])
    else:
        out["recipients"] = recs
    return out


# ------------------------------------------------------------------ consuming whole tokens
def _parse_protected(seg: str, strict: bool) -> dict:
    try:
        hdr = json.loads(b64.decode(seg, strict_bits=strict).decode("utf-8"))
    except (ValueError, UnicodeDecodeError) as e:
        raise Reject(f"protected header undecodable: {e}")
    if not isinstance(hdr, dict):
        raise Reject("protected header not an object")
    return hdr


def _dec(name, s, strict):
    if not isinstance(s, str):
        raise Reject(f"{name} must be a string")
    try:
        return b64.decode(s, strict_bits=strict)
    except ValueError as e:
        raise Reject(f"{name} undecodable: {e}")


def decrypt_parts(pseg: str, unprotected, recipients: list, iv_s, ct_s, tag_s, aad_s, keyres, sender=None,
                  any_recipient: bool = False, strict: bool = False, limit: int | None = 256000, structure: list | None = None):
    """recipients: list of (header|None, encrypted_key_b64|None).  keyres(merged_header) -> reference key."""
    protected = _parse_protected(pseg, strict) if pseg else {}
    if unprotected is not None and not isinstance(unprotected, dict):
        raise Reject("unprotected must be an object")
    iv, ct, tag = _dec("iv", iv_s, strict), _dec("ciphertext", ct_s, strict), _dec("tag", tag_s, strict)
    aad_full = pseg.encode("ascii")
    if aad_s is not None:
        _dec("aad", aad_s, strict)
        if aad_s == "":
            # RFC 7516 7.2.1: the member MUST be absent when the AAD is empty; leniently treated as absent
            if strict:
                raise Reject("empty aad member")
        else:
            aad_full += b"." + aad_s.encode("ascii")
    enc = protected.get("enc") if not (unprotected and "enc" in unprotected) else unprotected.get("enc")
    if not recipients:
        raise Reject("no recipients")
    ceks = []
    errors = []
    for rh, ek_s in recipients:
        try:
            if rh is not None and not isinstance(rh, dict):
                raise Reject("recipient header must be an object")
            hdr = {**protected, **(unprotected or {}), **(rh or {})}
            if strict:
                names = list(protected) + list(unprotected or {}) + list(rh or {})
                if len(names) != len(set(names)):
                    raise Reject("header names not disjoint")
            enc = hdr.get("enc")
            if not isinstance(enc, str) or enc not in ENCS:
                raise Reject("unknown enc")
            ek = _dec("encrypted_key", ek_s, strict) if ek_s is not None else b""
            key = keyres(hdr)
            s = sender(hdr) if callable(sender) else sender
            cek = unwrap_for_recipient(hdr.get("alg"), enc, key, hdr, ek, s, tag, strict)
            if len(cek) != ENCS[enc][0]:
                raise Reject("cek length")
            ceks.append(cek)
            if structure is not None:
                structure.append({"alg": hdr.get("alg"), "enc": enc, "ek_len": len(ek), "iv_len": len(iv), "tag_len": len(tag)})
        except Reject as e:
            errors.append(str(e))
            if not any_recipient:
                raise
    if not ceks:
        raise Reject("no recipient could be decrypted: " + "; ".join(errors))
    if len(set(ceks)) != 1:
        raise Reject("recipients yield different CEKs")
    m = content_decrypt(enc, ceks[0], iv, aad_full, ct, tag)
    zipv = protected.get("zip")
    if zipv is not None:
        if zipv != "DEF":
            raise Reject("unknown zip")
        m = inflate(m, limit, allow_zlib_header=not strict)
    return {"plaintext": m, "protected": protected, "unprotected": unprotected, "cek": ceks[0],
            "recipient_headers": [r[0] for r in recipients]}


def decrypt_compact(token, keyres, sender=None, strict: bool = False, **kw):
    if isinstance(token, bytes):
        try:
            token = token.decode("ascii")
        except UnicodeDecodeError:
            raise Reject("non-ascii")
    parts = token.split(".")
    if len(parts) != 5:
        raise Reject("need 5 segments")
    return decrypt_parts(parts[0], None, [(None, parts[1])], parts[2], parts[3], parts[4], None, keyres, sender, strict=strict, **kw)


def decrypt_json(obj: dict, keyres, sender=None, any_recipient: bool = False, strict: bool = False, **kw):
    if not isinstance(obj, dict):
        raise Reject("not an object")
    pseg = obj.get("protected", "")
    if not isinstance(pseg, str):
        raise Reject("protected must be a string")
    if "recipients" in obj:
        recs = obj["recipients"]
        if not isinstance(recs, list):
            raise Reject("recipients must be a list")
        rl = []
        for r in recs:
            if not isinstance(r, dict):
                raise Reject("recipient must be an object")
            rl.append((r.get("header"), r.get("encrypted_key")))
    else:
        rl = [(obj.get("header"), obj.get("encrypted_key"))]
    if strict and any(ek == "" for _, ek in rl):
        # RFC 7516 7.2.1: the member MUST be absent when the JWE Encrypted Key is the empty octet sequence
        raise Reject("encrypted_key member present but empty")
    for m in ("iv", "ciphertext", "tag"):
        if m not in obj:
            if m == "ciphertext":
                raise Reject("ciphertext missing")
    return decrypt_parts(pseg, obj.get("unprotected"), rl, obj.get("iv", ""), obj["ciphertext"], obj.get("tag", ""),
                         obj.get("aad"), keyres, sender, any_recipient=any_recipient, strict=strict, **kw)
