"""Reference JWS (RFC 7515 / 7518 s.3 / 8037 / 8812 / 7797), independent of joserfc.

Primitives: hmac/hashlib (HS*), pycryptodome pkcs1_15 / pss (RS*, PS*), pure-Python ECDSA
(ES256/384/512/ES256K, RFC 6979 nonces), pycryptodome rfc8032 (EdDSA).
"""
from __future__ import annotations
import hashlib
import hmac
import json

from Crypto.Hash import SHA256, SHA384, SHA512
from Crypto.PublicKey import RSA
from Crypto.Signature import pkcs1_15, pss

from . import b64
from .ec import CURVES
from .okp import ed_sign, ed_verify

HASHES = {"256": ("sha256", SHA256), "384": ("sha384", SHA384), "512": ("sha512", SHA512)}
ES_CURVE = {"ES256": ("P-256", "sha256"), "ES384": ("P-384", "sha384"), "ES512": ("P-521", "sha512"),
            "ES256K": ("secp256k1", "sha256")}
ALGS = ["none", "HS256", "HS384", "HS512", "RS256", "RS384", "RS512", "ES256", "ES384", "ES512",
        "PS256", "PS384", "PS512", "EdDSA", "ES256K"]
KTY = {**{a: "oct" for a in ("HS256", "HS384", "HS512")},
       **{a: "RSA" for a in ("RS256", "RS384", "RS512", "PS256", "PS384", "PS512")},
       **{a: "EC" for a in ES_CURVE}, "EdDSA": "OKP", "none": "oct"}


class Reject(Exception):
    pass


_rsa_cache: dict = {}


def _rsa(key: dict, private: bool):
    ck = (key["n"], private)
    k = _rsa_cache.get(ck)
    if k is None:
        if private:
            k = RSA.construct((key["n"], key["e"], key["d"], key["p"], key["q"]), consistency_check=False)
        else:
            k = RSA.construct((key["n"], key["e"]), consistency_check=False)
        if len(_rsa_cache) > 64:
            _rsa_cache.clear()
        _rsa_cache[ck] = k
    return k


def sign_raw(alg: str, key: dict, msg: bytes, extra: bytes = b"") -> bytes:
    if alg == "none":
        return b""
    if KTY.get(alg) != key["kty"]:
        raise Reject(f"key type {key['kty']} unsuitable for {alg}")
    if alg.startswith("HS"):
        return hmac.new(key["k"], msg, HASHES[alg[2:]][0]).digest()
    if alg[:2] in ("RS", "PS"):
        h = HASHES[alg[2:]][1].new(msg)
        k = _rsa(key, True)
        if alg[:2] == "RS":
            return pkcs1_15.new(k).sign(h)
        return pss.new(k, salt_bytes=h.digest_size).sign(h)
    if alg in ES_CURVE:
        crv, hn = ES_CURVE[alg]
        if key["crv"] != crv:
            raise Reject("curve mismatch")
        c = CURVES[crv]
        r, s = c.ecdsa_sign(key["d"], msg, hn, extra)
        return r.to_bytes(c.nsize, "big") + s.to_bytes(c.nsize, "big")
    if alg == "EdDSA":
        if key["crv"] not in ("Ed25519", "Ed448"):
            raise Reject("not an Edwards key")
        return ed_sign(key["crv"], key["d"], msg)
    raise Reject(f"unknown alg {alg!r}")


def verify_raw(alg, key: dict, msg: bytes, sig: bytes) -> bool:
    if not isinstance(alg, str) or alg == "none" or alg not in KTY:
        return False
    if KTY[alg] != key["kty"]:
        return False
    if alg.startswith("HS"):
        return hmac.compare_digest(hmac.new(key["k"], msg, HASHES[alg[2:]][0]).digest(), sig)
    if alg[:2] in ("RS", "PS"):
        h = HASHES[alg[2:]][1].new(msg)
        k = _rsa(key, False)
        try:
            if alg[:2] == "RS":
                pkcs1_15.new(k).verify(h, sig)
            else:
                pss.new(k, salt_bytes=h.digest_size).verify(h, sig)
            return True
        except (ValueError, TypeError):
            return False
    if alg in ES_CURVE:
        crv, hn = ES_CURVE[alg]
        if key["crv"] != crv:
            return False
        c = CURVES[crv]
        if len(sig) != 2 * c.nsize:
            return False
        r = int.from_bytes(sig[:c.nsize], "big")
        s = int.from_bytes(sig[c.nsize:], "big")
        return c.ecdsa_verify((key["x"], key["y"]), msg, r, s, hn)
    if alg == "EdDSA":
        if key["crv"] not in ("Ed25519", "Ed448"):
            return False
        return ed_verify(key["crv"], key["x"], msg, sig)
    return False


# ------------------------------------------------------------------ producing
def header_text(header: dict) -> bytes:
    return json.dumps(header, separators=(",", ":"), ensure_ascii=False).encode("utf-8")


def make_compact(protected_text: bytes, payload: bytes, alg: str, key: dict, b64_payload: bool = True,
                 detached: bool = False, extra: bytes = b"") -> str:
    h = b64.encode(protected_text)
    if b64_payload:
        p = b64.encode(payload)
        signing_input = (h + "." + p).encode("ascii")
    else:
        signing_input = h.encode("ascii") + b"." + payload
        p = payload.decode("utf-8")
    sig = b64.encode(sign_raw(alg, key, signing_input, extra))
    return h + "." + ("" if detached else p) + "." + sig


def make_json_signature(protected_text, unprotected, payload: bytes, alg: str, key: dict,
                        b64_payload: bool = True, extra: bytes = b"") -> dict:
    h = b64.encode(protected_text) if protected_text is not None else ""
    if b64_payload:
        signing_input = (h + "." + b64.encode(payload)).encode("ascii")
    else:
        signing_input = h.encode("ascii") + b"." + payload
    out = {"signature": b64.encode(sign_raw(alg, key, signing_input, extra))}
    if protected_text is not None:
        out["protected"] = h
    if unprotected is not None:
        out["header"] = unprotected
    return out


def payload_member(payload: bytes, b64_payload: bool = True) -> str:
    return b64.encode(payload) if b64_payload else payload.decode("utf-8")


# ------------------------------------------------------------------ consuming
def _parse_protected(seg: str, strict: bool):
    try:
        raw = b64.decode(seg, strict_bits=strict)
        hdr = json.loads(raw.decode("utf-8"))
    except (ValueError, UnicodeDecodeError) as e:
        raise Reject(f"protected header undecodable: {e}")
    if not isinstance(hdr, dict):
        raise Reject("protected header is not an object")
    return hdr


def _b64_flag(protected: dict, unprotected: dict, rfc7797: bool) -> bool:
    """True = payload is base64url-encoded.  b64 is honoured only when integrity protected."""
    if not rfc7797 or "b64" not in protected:
        return True
    v = protected["b64"]
    if not isinstance(v, bool):
        raise Reject("b64 must be boolean")
    crit = protected.get("crit")
    if not (isinstance(crit, list) and "b64" in crit):
        raise Reject("b64 without crit")
    return v


def _check_one(protected_seg, protected: dict, unprotected: dict, sig_seg, payload_bytes_for, keyres, allowed,
               rfc7797: bool, strict: bool):
    merged = dict(protected)
    merged.update(unprotected or {})
    if strict and set(protected) & set(unprotected or {}):
        raise Reject("header names not disjoint")
    algs = [h["alg"] for h in (unprotected or {}, protected) if "alg" in h]
    if not algs:
        raise Reject("no alg")
    alg = algs[0]  # joserfc lets the unprotected member override; the lenient oracle tries both below
    if strict and "crit" in merged:
        crit = merged["crit"]
        if "crit" in (unprotected or {}) or not isinstance(crit, list) or not crit or \
                not all(isinstance(c, str) and c in merged for c in crit):
            raise Reject("bad crit")
    try:
        sig = b64.decode(sig_seg, strict_bits=strict)
    except ValueError as e:
        raise Reject(f"signature undecodable: {e}")
    b64flag = _b64_flag(protected, unprotected or {}, rfc7797)
    payload_seg, payload = payload_bytes_for(b64flag)
    signing_input = protected_seg.encode("ascii") + b"." + payload_seg
    key = keyres(merged)
    ok = False
    for a in (algs if not strict else algs[:1]):
        if allowed is not None and a not in allowed:
            continue
        if verify_raw(a, key, signing_input, sig):
            ok = True
            break
    if not ok:
        raise Reject("signature invalid")
    return {"protected": protected, "header": unprotected, "alg": alg}, payload


def verify_compact(token, keyres, allowed=None, rfc7797: bool = False, detached_payload=None, strict: bool = False):
    if isinstance(token, bytes):
        try:
            if rfc7797:
                # the payload part may be arbitrary octets
                parts = token.split(b".")
                if len(parts) != 3:
                    raise Reject("need 3 segments")
                hseg, pseg, sseg = parts[0].decode("ascii"), parts[1], parts[2].decode("ascii")
            else:
                hseg, pseg, sseg = None, None, None
                token = token.decode("ascii")
        except UnicodeDecodeError:
            raise Reject("non-ascii token")
    if isinstance(token, str):
        parts = token.split(".")
        if len(parts) != 3:
            raise Reject("need 3 segments")
        hseg, sseg = parts[0], parts[2]
        pseg = parts[1].encode("utf-8")
    protected = _parse_protected(hseg, strict)

    def payload_for(b64flag: bool):
        seg = pseg
        if detached_payload is not None and (not seg):
            seg = b64.encode(detached_payload).encode() if b64flag else detached_payload
        if b64flag:
            try:
                return seg, b64.decode(seg, strict_bits=strict)
            except ValueError as e:
                raise Reject(f"payload undecodable: {e}")
        return seg, seg

    info, payload = _check_one(hseg, protected, None, sseg, payload_for, keyres, allowed, rfc7797, strict)
    return {"payload": payload, "members": [info]}


def verify_json(obj: dict, keyres, allowed=None, rfc7797: bool = False, strict: bool = False):
    if not isinstance(obj, dict):
        raise Reject("not an object")
    if "signatures" in obj:
        entries = obj["signatures"]
        if not isinstance(entries, list) or not entries:
            raise Reject("no signatures")
        if strict and any(m in obj for m in ("protected", "header", "signature")):
            raise Reject("mixed general/flattened")
    else:
        if "signature" not in obj:
            raise Reject("no signature")
        entries = [{k: obj[k] for k in ("protected", "header", "signature") if k in obj}]
    pm = obj.get("payload")
    if not isinstance(pm, str):
        raise Reject("payload member missing")

    def payload_for(b64flag: bool):
        seg = pm.encode("utf-8")
        if b64flag:
            try:
                return seg, b64.decode(seg, strict_bits=strict)
            except ValueError as e:
                raise Reject(f"payload undecodable: {e}")
        return seg, seg

    members = []
    payloads = set()
    for e in entries:
        if not isinstance(e, dict) or not isinstance(e.get("signature"), str):
            raise Reject("bad signature entry")
        pseg = e.get("protected", "")
        if not isinstance(pseg, str):
            raise Reject("protected must be a string")
        protected = _parse_protected(pseg, strict) if "protected" in e and (pseg or strict) else {}
        unprot = e.get("header")
        if unprot is not None and not isinstance(unprot, dict):
            raise Reject("header must be an object")
        info, payload = _check_one(pseg, protected, unprot, e["signature"], payload_for, keyres, allowed, rfc7797, strict)
        members.append(info)
        payloads.add(payload)
    if len(payloads) != 1:
        raise Reject("signatures disagree on payload encoding")
    return {"payload": payloads.pop(), "members": members}
