"""Reference key model: strict JWK parser (RFC 7517/7518/8037), conformant exporter and
RFC 7638 thumbprint - independent of joserfc.

Internal key form (numbers): dict with
  oct: {"kty":"oct","k":bytes}
  RSA: {"kty":"RSA","n":int,"e":int[,"d","p","q","dp","dq","qi"]}
  EC : {"kty":"EC","crv":str,"x":int,"y":int[,"d":int]}
  OKP: {"kty":"OKP","crv":str,"x":bytes[,"d":bytes]}
plus optional "meta": {kid, use, key_ops, alg, ...}
"""
from __future__ import annotations
import hashlib
import json

from . import b64
from .ec import CURVES
from .okp import OKP_SIZES, ed_public, x_public

COMMON = ("kid", "use", "key_ops", "alg", "x5u", "x5c", "x5t", "x5t#S256")


class JWKError(ValueError):
    pass


def _str(jwk, name, required=True):
    if name not in jwk:
        if required:
            raise JWKError(f"missing {name}")
        return None
    v = jwk[name]
    if not isinstance(v, str):
        raise JWKError(f"{name} must be a string")
    return v


def _octets(jwk, name, required=True, length=None):
    s = _str(jwk, name, required)
    if s is None:
        return None
    try:
        raw = b64.decode(s, strict_bits=True)
    except b64.B64Error as e:
        raise JWKError(f"{name}: {e}")
    if length is not None and len(raw) != length:
        raise JWKError(f"{name}: length {len(raw)} != {length}")
    return raw


def _uint(jwk, name, required=True):
    raw = _octets(jwk, name, required)
    if raw is None:
        return None
    if len(raw) == 0 or (raw[0] == 0 and len(raw) > 1) or raw == b"\x00":
        if raw == b"\x00":
            return 0
        raise JWKError(f"{name}: not minimal big-endian")
    return int.from_bytes(raw, "big")


def parse_jwk(jwk: dict, strict: bool = True) -> dict:
    """Strict RFC parser: raises JWKError for anything non-conformant."""
    if not isinstance(jwk, dict):
        raise JWKError("not an object")
    kty = _str(jwk, "kty")
    key: dict = {"kty": kty}
    if kty == "oct":
        key["k"] = _octets(jwk, "k")
    elif kty == "RSA":
        key["n"] = _uint(jwk, "n")
        key["e"] = _uint(jwk, "e")
        if "d" in jwk:
            key["d"] = _uint(jwk, "d")
            crt = [m for m in ("p", "q", "dp", "dq", "qi") if m in jwk]
            if crt and len(crt) != 5:
                raise JWKError("partial CRT parameters")
            for m in crt:
                key[m] = _uint(jwk, m)
            if "oth" in jwk:
                raise JWKError("oth unsupported")
            if crt and key["p"] * key["q"] != key["n"]:
                raise JWKError("p*q != n")
    elif kty == "EC":
        crv = _str(jwk, "crv")
        if crv not in CURVES:
            raise JWKError(f"unknown curve {crv}")
        c = CURVES[crv]
        key["crv"] = crv
        key["x"] = int.from_bytes(_octets(jwk, "x", length=c.size), "big")
        key["y"] = int.from_bytes(_octets(jwk, "y", length=c.size), "big")
        if not c.on_curve(key["x"], key["y"]):
            raise JWKError("point not on curve")
        if "d" in jwk:
            key["d"] = int.from_bytes(_octets(jwk, "d", length=c.nsize), "big")
            if not 1 <= key["d"] < c.n:
                raise JWKError("d out of range")
            if strict and c.public(key["d"]) != (key["x"], key["y"]):
                raise JWKError("d does not match x,y")
    elif kty == "OKP":
        crv = _str(jwk, "crv")
        if crv not in OKP_SIZES:
            raise JWKError(f"unknown curve {crv}")
        key["crv"] = crv
        key["x"] = _octets(jwk, "x", length=OKP_SIZES[crv])
        if "d" in jwk:
            key["d"] = _octets(jwk, "d", length=OKP_SIZES[crv])
            if strict and okp_public(crv, key["d"]) != key["x"]:
                raise JWKError("d does not match x")
    else:
        raise JWKError(f"unknown kty {kty}")
    meta = {}
    for m in COMMON:
        if m in jwk:
            meta[m] = jwk[m]
    if "use" in meta and meta["use"] not in ("sig", "enc"):
        raise JWKError("bad use")
    if "key_ops" in meta and not (isinstance(meta["key_ops"], list) and all(isinstance(o, str) for o in meta["key_ops"])):
        raise JWKError("bad key_ops")
    for m in ("kid", "alg"):
        if m in meta and not isinstance(meta[m], str):
            raise JWKError(f"bad {m}")
    if meta:
        key["meta"] = meta
    return key


def okp_public(crv: str, d: bytes) -> bytes:
    return ed_public(crv, d) if crv.startswith("Ed") else x_public(crv, d)


def export_jwk(key: dict, private: bool = True) -> dict:
    """Conformant JWK (fixed-width EC members, minimal RSA integers, unpadded base64url)."""
    kty = key["kty"]
    out: dict = {"kty": kty}
    if kty == "oct":
        out["k"] = b64.encode(key["k"])
    elif kty == "RSA":
        for m in ("n", "e"):
            out[m] = b64.int_to_b64(key[m])
        if private and "d" in key:
            for m in ("d", "p", "q", "dp", "dq", "qi"):
                if m in key:
                    out[m] = b64.int_to_b64(key[m])
    elif kty == "EC":
        c = CURVES[key["crv"]]
        out["crv"] = key["crv"]
        out["x"] = b64.encode(key["x"].to_bytes(c.size, "big"))
        out["y"] = b64.encode(key["y"].to_bytes(c.size, "big"))
        if private and "d" in key:
            out["d"] = b64.encode(key["d"].to_bytes(c.nsize, "big"))
    elif kty == "OKP":
        out["crv"] = key["crv"]
        out["x"] = b64.encode(key["x"])
        if private and "d" in key:
            out["d"] = b64.encode(key["d"])
    else:
        raise JWKError(kty)
    out.update(key.get("meta", {}))
    return out


def public_of(key: dict) -> dict:
    priv = {"oct": (), "RSA": ("d", "p", "q", "dp", "dq", "qi"), "EC": ("d",), "OKP": ("d",)}[key["kty"]]
    return {k: v for k, v in key.items() if k not in priv}


def is_private(key: dict) -> bool:
    return key["kty"] == "oct" or "d" in key


def thumbprint(key: dict, hashname: str = "sha256") -> str:
    j = export_jwk(key, private=True)
    req = {"oct": ("k", "kty"), "RSA": ("e", "kty", "n"), "EC": ("crv", "kty", "x", "y"), "OKP": ("crv", "kty", "x")}[key["kty"]]
    text = "{" + ",".join(json.dumps(m) + ":" + json.dumps(j[m]) for m in sorted(req)) + "}"
    return b64.encode(hashlib.new(hashname, text.encode("utf-8")).digest())


def secret_values(key: dict) -> dict:
    """Private material of a key as name -> bytes (minimal big-endian and, for EC, fixed width)."""
    out = {}
    kty = key["kty"]
    if kty == "oct":
        out["k"] = key["k"]
    elif kty == "RSA":
        for m in ("d", "p", "q", "dp", "dq", "qi"):
            if m in key:
                out[m] = key[m].to_bytes((key[m].bit_length() + 7) // 8, "big")
    elif kty == "EC":
        if "d" in key:
            out["d"] = key["d"].to_bytes((key["d"].bit_length() + 7) // 8, "big")
    elif kty == "OKP":
        if "d" in key:
            out["d"] = key["d"]
    return out
