"""RFC 7748 X25519 / X448 (pure Python Montgomery ladder) and RFC 8032 EdDSA (pycryptodome)."""
from __future__ import annotations
from Crypto.PublicKey import ECC
from Crypto.Signature import eddsa

OKP_SIZES = {"Ed25519": 32, "Ed448": 57, "X25519": 32, "X448": 56}


def _ladder(k: int, u: int, p: int, a24: int, bits: int) -> int:
    x1, x2, z2, x3, z3, swap = u, 1, 0, u, 1, 0
    for t in range(bits - 1, -1, -1):
        kt = (k >> t) & 1
        swap ^= kt
        if swap:
            x2, x3, z2, z3 = x3, x2, z3, z2
        swap = kt
        A = (x2 + z2) % p
        AA = A * A % p
        B = (x2 - z2) % p
        BB = B * B % p
        E = (AA - BB) % p
        C = (x3 + z3) % p
        D = (x3 - z3) % p
        DA = D * A % p
        CB = C * B % p
        x3 = (DA + CB) % p
        x3 = x3 * x3 % p
        z3 = (DA - CB) % p
        z3 = x1 * z3 * z3 % p
        x2 = AA * BB % p
        z2 = E * (AA + a24 * E) % p
    if swap:
        x2, x3, z2, z3 = x3, x2, z3, z2
    return x2 * pow(z2, p - 2, p) % p


def x25519(k: bytes, u: bytes) -> bytes:
    if len(k) != 32 or len(u) != 32:
        raise ValueError("X25519 sizes")
    kk = bytearray(k)
    kk[0] &= 248
    kk[31] &= 127
    kk[31] |= 64
    uu = bytearray(u)
    uu[31] &= 127
    r = _ladder(int.from_bytes(kk, "little"), int.from_bytes(uu, "little") % (2 ** 255 - 19), 2 ** 255 - 19, 121665, 255)
    return r.to_bytes(32, "little")


def x448(k: bytes, u: bytes) -> bytes:
    if len(k) != 56 or len(u) != 56:
        raise ValueError("X448 sizes")
    kk = bytearray(k)
    kk[0] &= 252
    kk[55] |= 128
    p = 2 ** 448 - 2 ** 224 - 1
    r = _ladder(int.from_bytes(kk, "little"), int.from_bytes(u, "little") % p, p, 39081, 448)
    return r.to_bytes(56, "little")


def x_public(crv: str, d: bytes) -> bytes:
    if crv == "X25519":
        return x25519(d, (9).to_bytes(32, "little"))
    if crv == "X448":
        return x448(d, (5).to_bytes(56, "little"))
    raise ValueError(crv)


def x_exchange(crv: str, d: bytes, peer_x: bytes) -> bytes:
    out = x25519(d, peer_x) if crv == "X25519" else x448(d, peer_x)
    if not any(out):
        raise ValueError("all-zero shared secret (small-order point)")
    return out


def ed_public(crv: str, seed: bytes) -> bytes:
    k = eddsa.import_private_key(seed)
    return k.public_key().export_key(format="raw")


def ed_sign(crv: str, seed: bytes, msg: bytes) -> bytes:
    if len(seed) != OKP_SIZES[crv]:
        raise ValueError("seed size")
    k = eddsa.import_private_key(seed)
    return eddsa.new(k, "rfc8032").sign(msg)


def ed_verify(crv: str, x: bytes, msg: bytes, sig: bytes) -> bool:
    if len(x) != OKP_SIZES[crv]:
        return False
    try:
        k = eddsa.import_public_key(x)
        eddsa.new(k, "rfc8032").verify(msg, sig)
        return True
    except ValueError:
        return False
