"""Self-test of the reference implementation against published vectors (copied to ref/vectors) and against
independent primitives.  run() raises AssertionError on any mismatch -> harness exit 2."""
from __future__ import annotations
import functools
import json
import os

from . import b64, jws, jwe, keys as rk
from .ec import CURVES, P256

V = os.path.join(os.path.dirname(os.path.abspath(__file__)), "vectors")


def _load_key(name):
    from gens.pem import load_pem
    data = open(os.path.join(V, "keys", name), "rb").read()
    if name.endswith(".json"):
        return rk.parse_jwk(json.loads(data), strict=True)
    return load_pem(data)


@functools.lru_cache(None)
def run() -> int:
    n = 0
    # base64url
    assert b64.encode(bytes([3, 236, 255, 224, 193])) == "A-z_4ME" and b64.decode("A-z_4ME") == bytes([3, 236, 255, 224, 193])
    # RFC 3394 4.1 / 4.6
    kek = bytes.fromhex("000102030405060708090A0B0C0D0E0F")
    data = bytes.fromhex("00112233445566778899AABBCCDDEEFF")
    assert jwe.aes_wrap(kek, data).hex().upper() == "1FA68B0A8112B447AEF34BD8FB5A7B829D3E862371D2CFE5"
    assert jwe.aes_unwrap(kek, jwe.aes_wrap(kek, data)) == data
    kek = bytes.fromhex("000102030405060708090A0B0C0D0E0F101112131415161718191A1B1C1D1E1F")
    data = bytes.fromhex("00112233445566778899AABBCCDDEEFF000102030405060708090A0B0C0D0E0F")
    assert jwe.aes_wrap(kek, data).hex().upper() == "28C9F404C4B810F4CBCCB35CFB87F8263F5786E2D80ED326CBC7F0E71A99F43BFB988B9B7A02DD21"
    n += 3
    # RFC 7518 appendix C Concat KDF
    z = bytes([158, 86, 217, 29, 129, 113, 53, 211, 114, 131, 66, 131, 191, 132, 38, 156, 251, 49, 110, 163, 218, 128, 106, 72, 246, 218, 167, 121, 140, 254, 144, 196])
    out = jwe.concat_kdf(z, 16, "A128GCM", b"Alice", b"Bob")
    assert b64.encode(out) == "VqqN6vgjbSBcIijNcacQGg", b64.encode(out)
    n += 1
    # HChaCha20 (draft-irtf-cfrg-xchacha 2.2.1)
    sub = jwe._hchacha20(bytes(range(32)), bytes.fromhex("000000090000004a0000000031415927"))
    assert sub.hex() == "82413b4227b27bfed30e42508a877d73a0f9e4d58a74a853c12ec41326d3ecdc", sub.hex()
    # XC20P against pycryptodome's XChaCha20-Poly1305
    from Crypto.Cipher import ChaCha20_Poly1305
    k, nonce, aad, pt = bytes(range(32)), bytes(range(64, 88)), b"aad", b"some plaintext"
    c = ChaCha20_Poly1305.new(key=k, nonce=nonce); c.update(aad)
    ct, tag = c.encrypt_and_digest(pt)
    assert jwe.content_encrypt("XC20P", k, nonce, aad, pt) == (ct, tag)
    assert jwe.content_decrypt("XC20P", k, nonce, aad, ct, tag) == pt
    n += 2
    # RFC 7638 3.1
    jwk = {"kty": "RSA", "n": "0vx7agoebGcQSuuPiLJXZptN9nndrQmbXEps2aiAFbWhM78LhWx4cbbfAAtVT86zwu1RK7aPFFxuhDR1L6tSoc_BJECPebWKRXjBZCiFV4n3oknjhMstn64tZ_2W-5JsGY4Hc5n9yBXArwl93lqt7_RN5w6Cf0h4QyQ5v-65YGjQR0_FDW2QvzqY368QQMicAtaSqzs8KJZgnYb9c7d0zgdAZHzu6qMQvRL5hajrn1n91CbOpbISD08qNLyrdkt-bFTWhAI4vMQFh6WeZu0fM4lFd2NcRwr3XPksINHaQ-G_xBniIqbw0Ls1jF44-csFCur-kEgU8awapJzKnqDKgw", "e": "AQAB", "alg": "RS256", "kid": "2011-04-29"}
    assert rk.thumbprint(rk.parse_jwk(jwk)) == "NzbLsXh8uDCcd-6MNwXF4W_7noWXFZAfHkxZsRGC9Xs"
    n += 1
    # JWS example tokens (all algorithms) + RFC 7520 section 4 + RFC 7797
    ex = json.load(open(os.path.join(V, "jws_examples.json")))
    for t in ex["tests"]:
        key = {"kty": "oct", "k": t["secret"].encode()} if "secret" in t else _load_key(t["public_key"])
        for form in ("compact", "flattened_json", "general_json"):
            if form not in t:
                continue
            tok = t[form]
            r = (jws.verify_compact(tok, lambda h: key, strict=True) if form == "compact" else jws.verify_json(tok, lambda h: key, strict=True))
            assert r["payload"] == ex["payload"].encode(), (t["name"], form)
            n += 1
        if ("private_key" in t and t["private_key"] != "ec-p512-private.pem") or "secret" in t:  # that fixture is mis-encoded
            priv = key if "secret" in t else _load_key(t["private_key"])
            tok = jws.make_compact(jws.header_text(t["protected"]), b"hello", t["protected"]["alg"], priv)
            assert jws.verify_compact(tok, lambda h: key, strict=True)["payload"] == b"hello"
            bad = tok[:-3] + ("AAA" if not tok.endswith("AAA") else "BBB")
            try:
                jws.verify_compact(bad, lambda h: key)
                raise AssertionError("tampered token accepted by reference: " + t["name"])
            except jws.Reject:
                pass
            n += 2
    ex = json.load(open(os.path.join(V, "jws_rfc7520.json")))
    for t in ex["tests"]:
        if "public_key" not in t or "compact" not in t:
            continue
        key = _load_key(t["public_key"])
        assert jws.verify_compact(t["compact"], lambda h: key, strict=True)["payload"] == ex["payload"].encode("utf-8")
        n += 1
    ex = json.load(open(os.path.join(V, "jws_rfc7797.json")))
    k7797 = rk.parse_jwk({"kty": "oct", "k": "AyM1SysPpbyDfgZld3umj1qzKObwVMkoqQ-EstJQLr_T-1qS0gZH75aKtMN3Yj0iPS4hcgUuTwjAzZr1Z9CAow"})
    for t in ex["tests"]:
        payload = t.get("payload", ex["payload"]).encode()
        r = jws.verify_compact(t["compact"], lambda h: k7797, rfc7797=True, detached_payload=payload)
        assert r["payload"] == payload, t["name"]
        r = jws.verify_json(t["flattened_json"], lambda h: k7797, rfc7797=True)
        assert r["payload"] == payload, t["name"]
        n += 2
    # JWE RFC 7520 section 5 + ECDH-1PU draft vectors
    ex = json.load(open(os.path.join(V, "jwe_rfc7520.json")))
    pt7520 = ("You can trust us to stick with you through thick and thin–to the bitter end. And you can trust us to "
              "keep any secret of yours–closer than you keep it yourself. But you cannot trust us to let you face trouble "
              "alone, and go off without a word. We are your friends, Frodo.").encode("utf-8")
    for t in ex["tests"]:
        key = _load_key(t["key"])
        r = jwe.decrypt_compact(t["compact"], lambda h: key, strict=True)
        assert r["plaintext"] == pt7520, t["name"]
        n += 1
        for form in ("flattened_json", "general_json"):
            if form in t:
                assert jwe.decrypt_json(t[form], lambda h: key, strict=True)["plaintext"] == pt7520, (t["name"], form)
                n += 1
    ex = json.load(open(os.path.join(V, "jwe_compact_ecdh_1pu.json")))
    alice, bob = _load_key("ec-p256-alice.json"), _load_key("ec-p256-bob.json")
    for t in ex["tests"]:
        r = jwe.decrypt_compact(t["value"], lambda h: bob, sender=alice, strict=True)
        assert r["plaintext"] == ex["payload"].encode(), t
        n += 1
    # pure-Python EC against RFC 6979 A.2.5
    d = 0xC9AFA9D845BA75166B5C215767B1D6934E50C3DB36E89B127B8A622B120F6721
    r_, s_ = P256.ecdsa_sign(d, b"sample", "sha256")
    assert r_ == 0xEFD48B2AACB6A8FD1140DD9CD45E81D69D2C877B56AAF991C34D0EA84EAF3716
    assert P256.ecdsa_verify(P256.public(d), b"sample", r_, s_, "sha256")
    for c in CURVES.values():
        assert c.on_curve(c.gx, c.gy) and c.mul(c.n - 1)[0] == c.gx
    n += 2
    return n


if __name__ == "__main__":
    print("reference self-test ok:", run(), "assertions groups")
