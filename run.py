#!/venv/bin/python
"""run.py <ID> <quick|thorough>   |   run.py --replay <file>"""
import os
import sys

sys.path.insert(0, os.path.dirname(os.path.abspath(__file__)))


def main(argv):
    from harness import core
    try:
        if len(argv) >= 2 and argv[0] == "--replay":
            return core.run_replay(argv[1])
        if len(argv) < 1 or argv[0] not in core.CHECKS:
            print(__doc__)
            return 2
        pid = argv[0]
        tier = argv[1] if len(argv) > 1 else os.environ.get("VERIF_TIER", "quick")
        if tier not in ("quick", "thorough"):
            print(__doc__)
            return 2
        seed = int(os.environ.get("VERIF_SEED", "1") or 1)
        return core.run_check(pid, tier, seed)
    except core.HarnessError as e:
        print("HARNESS-ERROR", e, file=sys.stderr)
        return 2
    except Exception:
        import traceback
        traceback.print_exc()
        return 2


if __name__ == "__main__":
    sys.exit(main(sys.argv[1:]))
