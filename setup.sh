#!/bin/sh
# Offline setup: make hypothesis (and pycryptodome, already a dependency of joserfc's drafts) importable by /venv/bin/python.
set -e
cd "$(dirname "$0")"
/venv/bin/python -c "import hypothesis" 2>/dev/null || \
  PIP_NO_INDEX=1 /venv/bin/pip install --no-index --find-links /opt/veriftools/wheels hypothesis
/venv/bin/python -c "import hypothesis, Crypto, cryptography; print('setup ok: hypothesis', hypothesis.__version__)"
mkdir -p evidence replays
