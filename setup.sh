#!/bin/sh
# Offline setup: make hypothesis (and pycryptodome, already a dependency of joserfc's drafts) importable by /venv/bin/python.
set -e
cd "$(dirname "$0")"
/venv/bin/python -c "import hypothesis" 2>/dev/null || \
  PIP_NO_INDEX=1 /venv/bin/pip install --no-index --find-links /opt/veriftools/wheels hypothesis
/venv/bin/python -c "import hypothesis, Crypto, cryptography; print('setup ok: hypothesis', hypothesis.__version__)"
# coverage-guided supplement of the thorough tiers of C16/C19 (optional: the checks note its absence and go on)
if [ ! -d .deps/atheris ]; then
  PIP_NO_INDEX=1 /venv/bin/pip install -q --no-index --find-links /opt/veriftools/wheels --target .deps atheris >/dev/null 2>&1 || echo "note: atheris not installed (thorough-tier supplement disabled)"
fi
mkdir -p evidence replays
