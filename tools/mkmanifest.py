#!/venv/bin/python
"""Regenerate /verif/MANIFEST.json from the table below (only checks whose module exists are claimed)."""
import json
import os
import sys

VERIF = os.path.dirname(os.path.dirname(os.path.abspath(__file__)))
sys.path.insert(0, VERIF)
from harness.core import CHECKS  # noqa

TABLE = {
    "C20": dict(
        category="exploration", design_ref="3/C20",
        technique="harness-owned thread schedules (sys.settrace line-level scheduler: every single-preemption interleaving and alternating many-preemption schedules for operation pairs sharing an object, sampled 2-3 preemption schedules), Hypothesis-generated sequential call histories in forked children, multi-thread stress; oracle = outcome in isolation (computed in pristine forked processes) + shared-state invariants + freshness of produced IVs / salts / ephemeral keys",
        text="Per quick run ~10^5 deterministic two-thread schedules over a core set of ~57 operations (sign / verify / encrypt / decrypt in every family incl. compressed, JSON, ECDH-1PU and GCMKW messages, key set "
             "operations, exports, thumbprints, per-call allow-lists, caller registries, keys sharing one parameters dict): every single-preemption point plus alternating schedules for the ordered pairs that share a "
             "lazily initialised key, a key set, a registry or a built-in algorithm object, 2-3 preemption points for the other pairs, plus sampled multi-preemption schedules; generated sequential histories of "
             "2-12 operations from a pool of 72 (each in a forked child so that recorded histories are self-contained), and stress rounds of 8-24 threads under a 1 us switch interval. Every call must give the "
             "outcome it gives in isolation (accept/reject, exception class, recovered content, produced token valid under the reference), both calls repeated after the interleaving still behave as in isolation, "
             "no IV / key-wrap IV / salt / ephemeral key occurs twice, and every key of every key set must still have kid == thumbprint. The thorough tier enumerates every single-preemption schedule of every "
             "ordered pair of all operations.",
        note="interleavings at Python-line granularity inside joserfc only; C-level races and free-threaded builds are out of reach; the stress part is a non-deterministic supplement",
    ),
    "C18": dict(
        category="exploration", design_ref="3/C18",
        technique="generated call histories (interleaved encryptions over shared key objects, host random.seed() calls, decrypt->re-encrypt steps) with history invariants (exact sizes, pairwise distinctness, no fixed bits), CEK observed through the independent reference, cross-process comparison in fresh interpreters",
        text="Per quick run ~110 generated histories x 3-6 configurations x 140 encryptions (24 alg/enc configurations, 6 curves, 3 serializations, same key objects, equal header values) plus "
             "re-encryption of decrypted objects: IV, CEK (recovered by unwrapping with the reference), epk, GCMKW iv, PBES2 p2s/p2c must have the exact size, be pairwise distinct and show no "
             "fixed bit over >= 128 samples; 6 histories are replayed in 4 fresh interpreter processes each (seeding Python's global PRNG identically, as a host might) and must share no value; "
             "~1900 generated keys per run must be distinct, of the requested size/curve, oct keys without fixed bits.",
        note="statistical power: constants, resets, caches, fixed bits, wrong sizes; not a randomness-quality test; false alarm probability < 2^-100",
    ),
    "C17": dict(
        category="exploration", design_ref="3/C17",
        technique="Hypothesis-generated plaintext lengths placed around the limit by construction x compressibility classes x producers (joserfc, independent reference at DEFLATE levels 0-9, zlib framing, chunk-wise built bombs), exact round-trip / must-raise oracle plus tracemalloc peak-memory bound",
        text="~2700 cases per quick run: lengths 256000+delta (delta from -1000 to +5000 incl. the 255..260 window of a pending match), small sizes and 0.5-3 MiB, six compressibility classes, 8 "
             "content encryptions, compact and flattened, streams made by joserfc (also re-encrypting the same object) and by the reference (levels 0-9, zlib header), 120 bombs expanding to "
             "8-64 MiB (thorough: up to 512 MiB) built without materialising the plaintext. Within the limit the exact octets must come back, beyond it ExceededSizeError, joserfc's own "
             "stream must be complete raw DEFLATE, and Python-level peak memory must stay under 4*256000 + 8*len(token) + 2 MiB.",
        note="tracemalloc sees Python allocations (incl. zlib output buffers), not RSS; truncated foreign streams are DONT_CARE",
    ),
    "C12": dict(
        category="exploration", design_ref="3/C12",
        technique="Hypothesis-generated keys, signing and encryption plans; taint-style output scanner (raw / base64url / base64 / hex spellings of every private parameter incl. captured ephemeral keys) with positive controls; must-raise oracle for private exports from public keys",
        text="Per quick run ~1300 generated keys x 12 public-facing outputs (public JWK, public key set, public PEM/DER via three methods, thumbprint, auto kid, default export of a public key), "
             "~660 JWS and ~1260 JWE/JWT serializations (686 with a captured ephemeral private key) are scanned for the octets of d, p, q, dp, dq, qi, k and ephemeral d in raw, base64url, base64 and hex "
             "form and for private member names; ~7000 private-export requests on public-only keys must raise. Every shard first proves that the scanner flags private exports and planted secrets.",
        note="secrets shorter than 16 octets are not searched; a secret that the caller also supplied as payload/AAD/salt is excluded for that case; ephemeral keys are observed by wrapping generate_key in the harness process",
    ),
    "C11": dict(
        category="exploration", design_ref="3/C11",
        technique="Hypothesis-generated keys and parameters, export/import round trips judged through an independent strict RFC 7518/8037 JWK parser and `cryptography` number objects, interoperation checks (sign/verify, ECDH), single-mutation generator for malformed JWKs with a must-reject oracle",
        text="~2800 generated round trips per quick run (every key type/size/curve, special short-coordinate and leading-zero keys weighted in, entered as JWK/PEM/DER/encrypted PEM/generated, "
             "exported as private/public JWK, PEM, DER with and without password, KeySet, re-imported through the typed class, JWKRegistry and import_key_set) with equality of numbers, "
             "RFC member formats, returned members, password really applied, signature and ECDH interoperation; ~8000 malformed JWKs (one mutation each: delete, retype to every JSON type, "
             "use/key_ops contradiction, undecodable base64url, partial CRT, off-curve coordinates, foreign OKP x, oth) must be refused. Exploration over generated cases.",
        note="trusts /verif/ref/keys.py strict parser and `cryptography` number objects; padded base64url and benign labels are DONT_CARE; RSA 4096 only in the thorough tier",
    ),
    "C13": dict(
        category="exploration", design_ref="3/C13",
        technique="Hypothesis-generated keys in 8 representations compared with an independent RFC 7638 implementation (differential + metamorphic: all representations agree), rule-based state machine for the kid history",
        text="~2600 generated keys per quick run, each in up to 8 representations (private/public JWK, shuffled JWK with optional members, PEM, DER, explicit params) and 3 digests: thumbprint() "
             "must equal the reference RFC 7638 value and all representations must agree; 700 generated histories x 12 steps (ensure_kid, KeySet(), as_dict with overriding params, caller edits "
             "of exported dicts, PEM export, thumbprint) check that an auto kid equals the thumbprint and no assigned kid ever changes. Exploration over generated cases.",
        note="reference thumbprint: own canonical JSON + hashlib from the key numbers (self-tested on RFC 7638 3.1)",
    ),
    "C14": dict(
        category="exploration", design_ref="3/C14",
        technique="Hypothesis-generated key sets / kid states with a model oracle; consumed tokens minted by the independent reference under the named key or (negative) under another key of the set carrying the same label; produced tokens judged by the reference with every key of the set",
        text="~7000 generated cases per quick run: key sets of 1-6 generated keys (several of the needed type, explicit and thumbprint kids), kid absent / known / unknown / empty / "
             "mislabelled in protected, unprotected or per-recipient position, set passed directly or via callable, JWS and JWE in 3 serializations incl. ECDH-1PU skid with a sender key set; "
             "the model says which key must be used, InvalidKeyIdError for unknown kids, single-key rule for absent kids, recorded kid for picked keys; export/import of the set must "
             "preserve the multiset of (kid, public numbers). Exploration over generated cases.",
        note="keys in a set are pairwise different also for agreement purposes (EC keys with equal x are excluded); kid \"\" on the producing side is DONT_CARE",
    ),
    "C15": dict(
        category="exploration", design_ref="3/C15",
        technique="Hypothesis-generated headers with exactly one rule violation (or none) per case, rule-based three-valued oracle (must reject / must accept / don't care); consumption-side tokens validly signed or encrypted by the independent reference over exactly that header",
        text="~28 000 generated headers per quick run: each registered / algorithm-specific / caller-registered / unknown parameter with a value of every JSON type, in protected, unprotected "
             "and per-recipient position, for JWS (compact, flattened, general, RFC 7797) and JWE (compact, flattened, general over dir, A128KW, ECDH-ES, PBES2, A128GCMKW), producing and "
             "consuming, strict checking on and off; one violated rule per case isolates each check, ~20 000 valid headers (caller-registered parameter, strict off) must be accepted. "
             "All cases of a shard run in one process so that registry state leaking between registries shows. Exploration over generated cases.",
        note="DONT_CARE: bool for int, crit [] / crit naming standard parameters, non-URL strings for jku/x5u; a header that cannot be authentic (alg-specific member missing / mistyped) is probed by rewriting a valid token",
    ),
    "C06": dict(
        category="exploration", design_ref="3/C06",
        technique="enumeration of the finite (algorithm x violated clause x operation x entry point x key hand-over) matrix with Hypothesis-generated key material, must-reject oracle with a suitable-key control per cell; reference-forged MAC-with-public-key tokens; warning oracle for PEM/SSH text imported as oct",
        text="~16 000 cells per quick run, each violating exactly one clause of the statement (key type, curve, size, use, key_ops, private material) over all 35 algorithms, "
             "sign/verify/encrypt/decrypt, compact / flattened / general / RFC 7797 / jwt / add_recipient-attached entry points and key / key set / callable hand-over; consumption-side "
             "cells present the same key material with unsuitable metadata (or hand-built wrong-size tokens) so only the clause under test can cause the refusal; a control with the "
             "suitable key runs per cell. ~3400 HS* tokens MACed with public encodings of the verifier's key must be refused; ~400 PEM/OpenSSH encodings imported as oct must warn.",
        note="DONT_CARE: key_ops for dir/ECDH, RSA size on decryption, key 'alg' member; the matrix is complete for the listed clause variants, key material is sampled",
    ),
    "C05": dict(
        category="exploration", design_ref="3/C05",
        technique="complete enumeration of the finite configuration matrix (name x allow-list shape x passing style x operation x entry point) plus Hypothesis rule-based state machine over long-lived registries, model-based oracle; consumed tokens minted by the independent reference",
        text="Part A enumerates ~16 000 cells: every registered and several unknown / near-miss / non-string alg, enc and zip names x 7 allow-list shapes x algorithms=/registry=/default x "
             "sign/verify/encrypt/decrypt x compact/flattened/general/RFC 7797/jwt entry points, each compared with the model (allowed iff listed, or recommended when no list; 'none' never "
             "verifies; refused well-typed names raise UnsupportedAlgorithmError). Part B runs 900 generated histories x 30 steps over shared registry objects created with different lists to "
             "expose state leaking between calls. The matrix is exhaustive for the listed shapes; histories are sampled.",
        note="recommended set hard-coded from the statement (equals docs/guide/algorithms.rst); [] allow-list is DONT_CARE for recommended names; draft algorithms registered explicitly once",
    ),
    "C09": dict(
        category="exploration", design_ref="3/C09",
        technique="Hypothesis-generated claims/headers/datetimes with an encode-decode round-trip oracle (typed JSON equality, NumericDate model) and a must-raise oracle for validly signed non-object payloads minted by the reference",
        text="~15 000 generated JWT round trips per quick run over JWS (14 algs) and JWE (17 algs x 8 encs) transports, key / key set / callable, keys imported from JWK/PEM/DER, claims with unicode, "
             "nesting, big ints, floats and naive/UTC/offset datetimes (process TZ set to Asia/Tokyo so local-time slips show), explicit/implicit typ, caller header immutability; ~4800 "
             "validly signed or encrypted payloads that are not JSON objects must raise InvalidPayloadError. Exploration over generated cases.",
        note="naive datetimes are taken as UTC (library convention); integrity of the transport itself is decided by C01/C02 which use jwt.decode as an entry point",
    ),
    "C10": dict(
        category="exploration", design_ref="3/C10",
        technique="Hypothesis-generated claims/requests with boundary values placed by construction, compared with a reference validator written from the statement (three-valued oracle: accept / reject with error class / don't care)",
        text="~60 000 generated (claims, request options, now, leeway) cases per quick run plus the complete time-boundary grid (8 offsets x exp/nbf/iat x int/float x leeway 0/1/60 x "
             "explicit/implicit now); acceptance must coincide with the statement's rules and the raised error class must belong to a violated rule; claims must stay unmodified. "
             "Regions the statement leaves open (exp == now-leeway, bool/NaN times, value+values conflicts, aud corner cases, empty option dict, cross-type Python equality) are counted as DONT_CARE.",
        note="oracle is /verif/checks/c10_claims.py:oracle(); the implicit clock is patched inside joserfc.rfc7519.registry for the duration of the constructor",
    ),
    "C16": dict(
        category="exploration", design_ref="3/C16",
        technique="Hypothesis grammar-based and mutation-based fuzzing (raw bytes, header grammar with every JSON type per member, mutated valid compact and JSON tokens, reference-minted authenticated-but-malformed tokens, deep nesting) with an exception-type oracle and root-cause bucketing; thorough tier adds coverage-guided fuzzing (atheris/libFuzzer driving the same Hypothesis strategy through fuzz_one_input, joserfc instrumented)",
        text="72 000 generated hostile inputs per quick run (7 generator families) are offered to every verification / decryption / JWT-decoding entry point with fixed well-formed keys "
             "(matching key type chosen from the header so that processing goes deep) and four registry configurations; any exception that is not a JoseError or ValueError "
             "(BaseException included, e.g. a pyo3 panic) is a finding keyed by exception type and innermost joserfc function. 16 committed witnesses of repaired root causes are replayed first. "
             "Exploration: cannot show absence; p2c between 5001 and 2^63 is excluded by construction.",
        note="keys/registries are well-formed by construction; CPU-time attacks (huge p2c) are out of scope; the reference forge (/verif/ref) mints the authenticated inputs",
    ),
    "C02": dict(
        category="fault_enumeration", design_ref="3/C02",
        technique="exhaustive single-fault enumeration per Hypothesis-generated JWE (bit flips of every decoded segment, length changes, header re-spellings, splices, key/sender substitution, epk edits and forged invalid-point tokens, multi-recipient faults) judged by a differential oracle (independent reference decryptor)",
        text="For every generated base token (joserfc- or reference-minted; 21 algs x 8 encs x zip x 6 curves x 3 serializations x 1-3 recipients) all single-bit flips of the "
             "decoded protected header, IV, ciphertext, tag, AAD and encrypted keys (sampled for RSA/ECDH/PBES2), all tag/IV truncation lengths and extensions, re-spellings of the "
             "protected header, non-empty encrypted key in direct modes, splices, key and sender substitution, epk edits, reference-forged off-curve / small-order epk tokens and "
             "multi-recipient faults are enumerated (~6*10^5 faulted tokens per quick run) through decrypt_compact, decrypt_json (all- and any-recipient) and jwt.decode; a returned "
             "plaintext must be accepted by the independent decryptor with the same value. Complete per generated token; token space sampled.",
        note="assumes AEAD/key-wrap authenticity; trusts /verif/ref/jwe.py (self-tested); different CEKs under any-recipient validation and the kty label of an unauthenticated epk are DONT_CARE",
    ),
    "C04": dict(
        category="exploration", design_ref="3/C04",
        technique="Hypothesis-generated encryption plans, round-trip oracle (plaintext octets and header positions), must-refuse oracle for forbidden combinations",
        text="~6000 generated encrypt/decrypt round trips per quick run over 21 alg x 8 enc x zip x 6 curves x 3 serializations x 1-4 mixed recipients x AAD x apu/apv x "
             "alg placement x key hand-over (attached, key set, callable) x key import form; every recipient also decrypts alone under any-recipient validation; ~900 generated "
             "forbidden combinations (direct mode among several recipients, ECDH-1PU+KW with GCM/ChaCha) must be refused at encryption time. Exploration, sampled space.",
        note="keys derived with `cryptography`; any-recipient decryption by an RSA key holder next to a foreign RSA1_5 recipient is DONT_CARE (implicit rejection yields a second CEK)",
    ),
    "C08": dict(
        category="exploration", design_ref="3/C08",
        technique="differential testing in both directions against an independent RFC 7516/7518 + ECDH-1PU + ChaCha implementation (/verif/ref), generated header spellings, structural checks of produced tokens",
        text="joserfc-produced JWEs must decrypt under a strict independent decryptor (own RFC 3394 key wrap, Concat KDF, PBES2, CBC-HMAC, GCM key wrap, raw DEFLATE, pure-Python "
             "ECDH/X25519/X448) and satisfy structural rules (IV/tag/encrypted-key sizes, complete raw DEFLATE, epk members, p2s/p2c); reference-produced JWEs with generated "
             "CEK/IV/epk/salts, DEFLATE levels 0-9 and arbitrary protected-header spellings must decrypt in joserfc. Makes symmetric KDF/AAD/AL/key-split/padding errors visible that "
             "round trips cannot see. Exploration over generated cases plus the published RFC 7520 and ECDH-1PU vectors.",
        note="trusts /verif/ref/jwe.py (self-tested on RFC 3394, RFC 7518 app. C, RFC 7520 s.5, ECDH-1PU draft vectors, HChaCha20 draft vector) and pycryptodome/hashlib primitives",
    ),
    "C01": dict(
        category="fault_enumeration", design_ref="3/C01",
        technique="exhaustive single-fault enumeration per Hypothesis-generated token (every bit of every decoded segment, every truncation, splices, structural JSON edits, key substitution, alg=none) judged by a differential oracle (independent reference verifier)",
        text="For every generated base token (joserfc- or reference-minted, all 14 algorithms, 3 serializations, RFC 7797 on/off) all single-bit flips of the decoded protected "
             "header, payload and signature, all signature truncation lengths, extensions, zero-padding/stripping and DER re-encodings of signature halves, splices from a second "
             "valid token, 20 structural JSON edits, key substitution and alg=none variants are enumerated (~10^6 faulted tokens per quick run) through every verification entry "
             "point; whenever joserfc returns an object the independent verifier must accept the same octets under the same keys and recover the same payload/protected header. "
             "Fault enumeration is complete per generated token, the token space itself is sampled.",
        note="assumes unforgeability of the primitives; trusts /verif/ref/jws.py (self-tested on RFC vectors); ES384/ES512/ES256K header/payload flips sampled 1 in 4",
    ),
    "C03": dict(
        category="exploration", design_ref="3/C03",
        technique="Hypothesis-generated signing plans, round-trip oracle (sign with joserfc, verify with the public key form, compare payload octets and header members), detach/restore metamorphic check",
        text="~6000 generated sign/verify round trips per quick run over 14 algorithms, keys built from generated scalars (special short-coordinate scalars weighted in), "
             "3 serializations, b64 absent/true/false, protected/unprotected placement, key given as key / key set / callable and imported from JWK/PEM/DER. "
             "Exploration: samples the configuration space, no exhaustiveness claim.",
        note="keys are derived with `cryptography` from generated material; production with b64=false and non-UTF-8 payload is DONT_CARE",
    ),
    "C07": dict(
        category="exploration", design_ref="3/C07",
        technique="differential testing in both directions against an independent RFC 7515/7518/8037/8812/7797 implementation (/verif/ref), generated header spellings",
        text="joserfc-signed tokens must verify under a strict independent verifier that only receives the exported public JWK; reference-signed tokens with "
             "generated protected-header spellings (whitespace, member order, escapes, raw UTF-8) must verify in joserfc with identical payload/header. "
             "Symmetric wire-format errors invisible to round trips (PSS salt/MGF, hash choice, R||S layout, signing input) are visible here. Exploration over generated cases.",
        note="trusts /verif/ref (self-tested against RFC 7515/7520/7797 vectors at every start) and the primitives of pycryptodome/hashlib/pure-Python EC",
    ),
    "C19": dict(
        category="exploration", design_ref="3/C19",
        technique="exhaustive enumeration (len<=2) + Hypothesis generation, differential against an independent codec, round-trip and must-raise oracles; thorough tier adds an atheris (coverage-guided) campaign with the same oracles",
        text="Every octet string of length 0-2 and ~10^5 generated longer ones are round-tripped and compared with an independent RFC 4648 codec; "
             "each of the 192 non-alphabet byte values is inserted at every position of generated encodings and must raise ValueError; integers around "
             "powers of 256 up to 2^4096 must use the minimal encoding and round-trip. Exploration, not proof: absence beyond the enumerated lengths is not shown.",
        note="trusts /verif/ref/b64.py (pure-Python codec written from RFC 4648) and CPython's int.to_bytes; trailing '=' / non-canonical trailing bits / zero are DONT_CARE",
    ),
}

PENDING_REASON = "check not built yet in this round (work in progress; see DESIGN.md section 7 build order)"


def main():
    ids = sorted(CHECKS)
    checks, na = [], []
    for pid in ids:
        modfile = os.path.join(VERIF, CHECKS[pid].replace(".", "/") + ".py")
        if pid in TABLE and os.path.exists(modfile):
            t = TABLE[pid]
            checks.append({
                "property_id": pid,
                "quick_cmd": f"/venv/bin/python run.py {pid} quick",
                "thorough_cmd": f"/venv/bin/python run.py {pid} thorough",
                "evidence_file": f"/verif/evidence/{pid}.json",
                "replay_cmd_template": "/venv/bin/python run.py --replay {path}",
                "engine": "pbt-harness",
                "level_claimed": {"category": t["category"], "text": t["text"], "design_ref": t["design_ref"]},
                "level_note": t["note"],
                "technique": t["technique"],
            })
        else:
            na.append({"property_id": pid, "reason": PENDING_REASON})
    man = {
        "version": 1,
        "setup_cmd": "sh ./setup.sh",
        "hooks": {
            "guard": "AUTHLIB_JOSERFC_VERIF",
            "enable": "no source hooks are needed: checks import /repo/src (or $VERIF_REPO/src) directly; the runner sets AUTHLIB_JOSERFC_VERIF=1 but the library does not read it",
            "baseline_off_cmd": "cd /repo && /venv/bin/python -m pytest -q -p no:cacheprovider --timeout=900",
            "source_commits": [],
            "add_only": True,
        },
        "engines": [{
            "name": "pbt-harness", "path": "/verif/run.py",
            "serves_properties": [c["property_id"] for c in checks],
            "kind_free_text": "Hypothesis-driven property-based testing in collect mode (16 sharded processes), independent JOSE reference implementation "
                              "as differential oracle and token forge, exhaustive fault enumeration per generated token, settrace-based two-thread scheduler; the thorough tiers of C16 and C19 add an atheris (libFuzzer) campaign over the same strategies",
        }],
        "checks": checks,
        "not_applicable": na,
        "notes": "run.py <ID> <quick|thorough>; VERIF_SEED seeds every Hypothesis strategy; VERIF_REPO (default /repo) selects the tree under test; "
                 "exit 2 = harness error. known_findings.json lists open/fixed findings.",
    }
    if not na:
        del man["not_applicable"]
    with open(os.path.join(VERIF, "MANIFEST.json"), "w") as f:
        json.dump(man, f, indent=1)
        f.write("\n")
    print("claimed:", [c["property_id"] for c in checks])


if __name__ == "__main__":
    main()
