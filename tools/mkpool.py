#!/venv/bin/python
"""Generate /verif/keys/pool.json once (RSA keys are too slow to generate per case). Uses `cryptography`
directly (not joserfc).  Also searches special EC scalars / OKP seeds whose public coordinate (or d) has
leading zero octets."""
import json, os, sys
sys.path.insert(0, os.path.dirname(os.path.dirname(os.path.abspath(__file__))))
from cryptography.hazmat.primitives.asymmetric import rsa, ec, ed25519, ed448, x25519, x448
from cryptography.hazmat.primitives import serialization as ser

out = {"RSA": [], "EC_special": {}, "OKP_special": {}}
for bits, n in [(1024, 2), (2048, 4), (3072, 1), (4096, 1), (1031, 1), (2047, 1), (2049, 1), (3071, 1)]:  # moduli whose length is not a multiple of 8 bits too
    for _ in range(n):
        k = rsa.generate_private_key(65537, bits)
        pn = k.private_numbers()
        out["RSA"].append({"bits": bits, "n": hex(pn.public_numbers.n), "e": hex(pn.public_numbers.e), "d": hex(pn.d),
                           "p": hex(pn.p), "q": hex(pn.q), "dp": hex(pn.dmp1), "dq": hex(pn.dmq1), "qi": hex(pn.iqmp)})
curves = {"P-256": ec.SECP256R1(), "P-384": ec.SECP384R1(), "P-521": ec.SECP521R1(), "secp256k1": ec.SECP256K1()}
import secrets
for name, c in curves.items():
    size = (c.key_size + 7) // 8
    want = {"x1": None, "y1": None, "x2": None, "y2": None, "xy1": None}
    found = {}
    tries = 0
    while len(found) < 4 and tries < 400000:
        tries += 1
        d = secrets.randbelow(2 ** (c.key_size - 1)) + 1
        pn = ec.derive_private_key(d, c).public_key().public_numbers()
        lx = size - (pn.x.bit_length() + 7) // 8
        ly = size - (pn.y.bit_length() + 7) // 8
        if name == "P-521":
            # top octet of a P-521 coordinate holds one bit: "short" = top *two* octets zero
            lx -= 0; ly -= 0
        for tag, l in (("x", lx), ("y", ly)):
            if l >= 1 and tag + "1" not in found: found[tag + "1"] = hex(d)
            if l >= 2 and tag + "2" not in found: found[tag + "2"] = hex(d)
    # d with leading zero octets is trivial to construct
    found["d1"] = hex(secrets.randbelow(2 ** (8 * (size - 1) - 1)) + 2 ** (8 * (size - 2)))
    found["d2"] = hex(secrets.randbelow(2 ** (8 * (size - 2) - 1)) + 2 ** (8 * (size - 3)))
    found["dsmall"] = hex(secrets.randbelow(2 ** 64) + 2)
    out["EC_special"][name] = found
    print(name, tries, sorted(found))
okp = {"Ed25519": ed25519.Ed25519PrivateKey, "Ed448": ed448.Ed448PrivateKey, "X25519": x25519.X25519PrivateKey, "X448": x448.X448PrivateKey}
for name, cls in okp.items():
    found = {}
    tries = 0
    while len(found) < 2 and tries < 200000:
        tries += 1
        k = cls.generate()
        x = k.public_key().public_bytes(ser.Encoding.Raw, ser.PublicFormat.Raw)
        seed = k.private_bytes(ser.Encoding.Raw, ser.PrivateFormat.Raw, ser.NoEncryption())
        if x[0] == 0 and "x_lead0" not in found: found["x_lead0"] = seed.hex()
        if seed[0] == 0 and "d_lead0" not in found: found["d_lead0"] = seed.hex()
    out["OKP_special"][name] = found
    print(name, tries, sorted(found))
json.dump(out, open(os.path.join(os.path.dirname(os.path.dirname(os.path.abspath(__file__))), "keys", "pool.json"), "w"), indent=0)
# two 1024-bit keys with a CRT member (dp / dq / qi) one octet shorter than the primes were appended by hand (search loop over generated keys)
