#!/venv/bin/python
"""mutmatrix.py : run every hand-written mutant (mutants/<ID>-<n>.patch) against its property's quick check (with the repo tests)
and write mutants/RESULTS.md."""
import os, re, subprocess
V = os.path.dirname(os.path.dirname(os.path.abspath(__file__)))
rows = []
for fn in sorted(os.listdir(os.path.join(V, "mutants"))):
    m = re.match(r"(C\d\d)-.*\.patch$", fn)
    if not m:
        continue
    pid = m.group(1)
    r = subprocess.run([os.path.join(V, "tools", "mutrun.py"), os.path.join(V, "mutants", fn), pid, "--tests"], capture_output=True, text=True)
    tests = re.search(r"TESTS (\w+)", r.stdout)
    res = re.search(r"C\d\d: exit=\d (\w+)", r.stdout)
    keys = sorted(set(re.findall(r"key=(\S+)", r.stdout)))[:2]
    rows.append((fn, pid, tests.group(1) if tests else "?", res.group(1) if res else ("PATCH-FAILED" if "PATCH-FAILED" in r.stdout else "?"), ", ".join(keys)))
    print(rows[-1], flush=True)
with open(os.path.join(V, "mutants", "RESULTS.md"), "w") as f:
    f.write("# Hand-written mutants vs. the quick tier of the property's check\n\n'tests' = outcome of the repository's own suite on the mutant "
            "(pass = the suite does not see the change).\n\n| mutant | check | repo tests | check result | finding keys |\n|---|---|---|---|---|\n")
    for row in rows:
        f.write("| " + " | ".join(row) + " |\n")
