#!/venv/bin/python
"""mutmatrix.py : run every hand-written mutant (mutants/<ID>-<n>.patch) against its property's quick check (with the repo tests)
and write mutants/RESULTS.md."""
import os, re, subprocess
V = os.path.dirname(os.path.dirname(os.path.abspath(__file__)))
# mutants that do not break their property (kept as negative controls: a check that "caught" them would be over-reaching)
NOTES = {
    "C02-1.patch": "equivalent for C02: without check_iv a shortened IV still fails the AEAD tag (GCM) or is refused by the backend (CBC); nothing unauthentic is returned",
    "C06-4.patch": "equivalent for C06 (and seen by the repository's own tests): signing with a public key still fails, with an AssertionError",
    "C15-3.patch": "equivalent for C15: a missing / mistyped algorithm-specific member still makes the call fail later (assert / backend error), nothing is produced",
    "C16-1.patch": "equivalent for C16 (and seen by the repository's own tests): InvalidExchangeKeyError is itself derived from the library's base error",
}
rows = []
for fn in sorted(os.listdir(os.path.join(V, "mutants"))):
    m = re.match(r"(C\d\d)-.*\.patch$", fn)
    if not m:
        continue
    pid = m.group(1)
    r = subprocess.run([os.path.join(V, "tools", "mutrun.py"), os.path.join(V, "mutants", fn), pid, "--tests"], capture_output=True, text=True)
    tests = re.search(r"TESTS (\w+)", r.stdout)
    res = re.search(r"C\d\d: exit=\d (\w+)", r.stdout)
    keys = sorted(set(re.findall(r"key=(\S+)", r.stdout)))[:2]
    rows.append((fn, pid, tests.group(1) if tests else "?", res.group(1) if res else ("PATCH-FAILED" if "PATCH-FAILED" in r.stdout else "?"),
                 ", ".join(keys) + ((" " if keys else "") + "[" + NOTES[fn] + "]" if fn in NOTES else "")))
    print(rows[-1], flush=True)
with open(os.path.join(V, "mutants", "RESULTS.md"), "w") as f:
    f.write("# Hand-written mutants vs. the quick tier of the property's check\n\n'tests' = outcome of the repository's own suite on the mutant "
            "(pass = the suite does not see the change).\n\n| mutant | check | repo tests | check result | finding keys |\n|---|---|---|---|---|\n")
    for row in rows:
        f.write("| " + " | ".join(row) + " |\n")
