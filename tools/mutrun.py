#!/venv/bin/python
"""mutrun.py <patch.diff> <ID> [<ID>...] [--tests] [--tier quick] : apply a patch to a scratch copy of /repo
(outside /repo and /verif), optionally run the repo test-suite there, run the given checks with VERIF_REPO
pointing at the copy, print a summary line per check, remove the copy."""
import os, shutil, subprocess, sys, tempfile

def main():
    args = [a for a in sys.argv[1:] if not a.startswith("--")]
    patch, ids = os.path.abspath(args[0]), args[1:]
    tests = "--tests" in sys.argv
    tier = "thorough" if "--thorough" in sys.argv else "quick"
    d = tempfile.mkdtemp(prefix="mut-", dir="/tmp")
    try:
        subprocess.check_call(["rsync", "-a", "--exclude", ".git", "--exclude", "__pycache__", "/repo/", d + "/"])
        r = subprocess.run(["patch", "-p1", "-s", "-d", d, "-i", patch])
        if r.returncode != 0:
            print("PATCH-FAILED", patch); return 3
        if tests:
            r = subprocess.run(["/venv/bin/python", "-m", "pytest", "-q", "-p", "no:cacheprovider", "-x", "--timeout=900",
                                "--deselect", "tests/jwe/test_compact.py::TestJWECompact::test_ECDH_ES_with_EC_key",
                                "--deselect", "tests/jwk/test_ec_key.py::TestECKey::test_import_p512_key",
                                "--deselect", "tests/jws/test_errors.py::TestJWSErrors::test_ec_incorrect_curve",
                                "--deselect", "tests/jws/test_examples.py"], cwd=d, capture_output=True, text=True)
            print("TESTS", "pass" if r.returncode == 0 else "FAIL", r.stdout.strip().splitlines()[-1] if r.stdout.strip() else "")
        env = dict(os.environ, VERIF_REPO=d)
        rc = 0
        for pid in ids:
            r = subprocess.run(["/venv/bin/python", os.path.join(os.path.dirname(os.path.abspath(__file__)), "..", "run.py"), pid, tier],
                               env=env, capture_output=True, text=True, cwd=os.path.join(os.path.dirname(os.path.abspath(__file__)), ".."))
            lines = [l for l in r.stdout.splitlines() if l.startswith(("VIOLATION", "  key="))]
            print(f"{pid}: exit={r.returncode} " + ("CAUGHT" if r.returncode == 1 else "MISSED" if r.returncode == 0 else "ERROR"))
            for l in lines[:6]: print("   ", l[:300])
            if r.returncode == 2: print(r.stderr[-1500:])
        return rc
    finally:
        shutil.rmtree(d, ignore_errors=True)
        # evidence files were rewritten by the mutant run: restore them from git
        subprocess.run(["git", "checkout", "--", "evidence"], cwd=os.path.join(os.path.dirname(os.path.abspath(__file__)), ".."), capture_output=True)

if __name__ == "__main__":
    try:
        rc = main()
    except BrokenPipeError:      # output piped into head
        rc = 0
    try:
        sys.stdout.flush()
    except BrokenPipeError:
        pass
    os._exit(rc)
