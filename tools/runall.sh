#!/bin/sh
# runall.sh [seed] [tier] [ids...] : run every registered check (or the listed ones) once; print one line per check.
cd "$(dirname "$0")/.."
SEED=${1:-1}; TIER=${2:-quick}
[ $# -ge 2 ] && shift 2 || shift $#
IDS=${*:-C01 C02 C03 C04 C05 C06 C07 C08 C09 C10 C11 C12 C13 C14 C15 C16 C17 C18 C19 C20}
for id in $IDS; do
  s=$(date +%s)
  out=$(VERIF_SEED=$SEED /venv/bin/python run.py $id $TIER 2>&1); rc=$?
  e=$(date +%s)
  echo "$id seed=$SEED tier=$TIER exit=$rc wall=$((e-s))s :: $(echo "$out" | grep -c '^VIOLATION') violations, $(echo "$out" | grep -c '^KNOWN-FINDING') known; $(echo "$out" | tail -1 | cut -c1-160)"
  if [ $rc -ne 0 ]; then echo "$out" | grep -v '^    ' | tail -15 | cut -c1-400; fi
done
