#!/venv/bin/python
"""seedmatrix.py [seed-id-regex] : run each seeded change (seeded/<id>-<n>) against its own property's check, merge the outcome
into seeded/results.json and regenerate seeded/RESULTS.md from it."""
import json, os, re, subprocess, sys
V = os.path.dirname(os.path.dirname(os.path.abspath(__file__)))
pat = re.compile(sys.argv[1] if len(sys.argv) > 1 else r".")
seeds = sorted(d for d in os.listdir(os.path.join(V, "seeded")) if re.match(r"C\d\d-\d", d) and pat.search(d))
cache_path = os.path.join(V, "seeded", "results.json")
cache = json.load(open(cache_path)) if os.path.exists(cache_path) else {}
for sid in seeds:
    own = sid.split("-")[0]
    r = subprocess.run([os.path.join(V, "tools", "seedrun.py"), sid, own], capture_output=True, text=True)
    row = None
    for line in r.stdout.splitlines():
        m = re.match(r"(C\d\d): exit=(\d) (\w+)", line)
        if m:
            keys = re.findall(r"key=(\S+)", r.stdout)
            row = [own, m.group(3), ", ".join(sorted(set(keys))[:3])]
    if "PATCH-FAILED" in r.stdout or row is None:
        row = [own, "PATCH-FAILED", ""]
    cache[sid] = row
    print(sid, row, flush=True)
    json.dump(cache, open(cache_path, "w"), indent=1, sort_keys=True)
with open(os.path.join(V, "seeded", "RESULTS.md"), "w") as f:
    f.write("# Seeded regressions (from independent sub-agents) vs. the quick tier of the property's own check\n\n"
            "Waves: -1/-2 first, -3/-4 second, -5/-6 third, -7/-8 fourth, -9/-10 fifth, -11/-12 sixth, -13/-14 seventh, -15/-16 eighth, -17/-18 ninth, -19/-20 tenth, -21/-22 eleventh, -23 twelfth. MISSED rows are discussed in DESIGN.md 8.5.\n\n"
            "| seed | check | result | finding keys (first 3) |\n|---|---|---|---|\n")
    for sid in sorted(cache):
        f.write("| " + sid + " | " + " | ".join(cache[sid]) + " |\n")
print("written", len(cache))
