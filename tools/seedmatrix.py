#!/venv/bin/python
"""seedmatrix.py [--all] : run each seeded change (seeded/<id>-<n>) against its own property's check (or all checks with --all) and
write seeded/RESULTS.md."""
import os, re, subprocess, sys
V = os.path.dirname(os.path.dirname(os.path.abspath(__file__)))
seeds = sorted(d for d in os.listdir(os.path.join(V, "seeded")) if re.match(r"C\d\d-\d", d))
rows = []
for sid in seeds:
    own = sid.split("-")[0]
    ids = [own]
    r = subprocess.run([os.path.join(V, "tools", "seedrun.py"), sid] + ids, capture_output=True, text=True)
    for line in r.stdout.splitlines():
        m = re.match(r"(C\d\d): exit=(\d) (\w+)", line)
        if m:
            keys = re.findall(r"key=(\S+)", r.stdout)
            rows.append((sid, m.group(1), m.group(3), ", ".join(sorted(set(keys))[:3])))
            print(rows[-1], flush=True)
    if "PATCH-FAILED" in r.stdout:
        rows.append((sid, own, "PATCH-FAILED", ""))
with open(os.path.join(V, "seeded", "RESULTS.md"), "w") as f:
    f.write("# Seeded regressions (from independent sub-agents) vs. the quick tier of the property's own check\n\n| seed | check | result | finding keys (first 3) |\n|---|---|---|---|\n")
    for row in rows:
        f.write("| " + " | ".join(row) + " |\n")
print("written", len(rows))
