#!/venv/bin/python
"""seedrun.py <seed-id> [<ID>...] : run checks (default: the seed's own property) against a seeded change
(uses patch.rebased.diff when the original no longer applies to the fixed tree)."""
import os, subprocess, sys
V = os.path.dirname(os.path.dirname(os.path.abspath(__file__)))
sid = sys.argv[1]
ids = [a for a in sys.argv[2:] if not a.startswith("--")] or [sid.split("-")[0]]
flags = [a for a in sys.argv[2:] if a.startswith("--")]
d = os.path.join(V, "seeded", sid)
patch = os.path.join(d, "patch.rebased.diff")
if not os.path.exists(patch):
    patch = os.path.join(d, "patch.diff")
sys.exit(subprocess.call([os.path.join(V, "tools", "mutrun.py"), patch] + ids + flags))
