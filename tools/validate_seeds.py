#!/venv/bin/python
"""Validate sub-agent seeded changes: for each /tmp/wt/<ID>/seed/patch<j>.diff: scratch copy of /repo, apply,
run test suite (only the 4 known failures allowed), demo must fail with the patch and pass without. Results
are stored under /verif/seeded/<ID>-<j>/ (patch.diff, demo.py, meta.json)."""
import json, os, shutil, subprocess, sys, tempfile
from concurrent.futures import ThreadPoolExecutor
KNOWN = {"test_ECDH_ES_with_EC_key", "test_import_p512_key", "test_ec_incorrect_curve", "test_ES512"}
VERIF = os.path.dirname(os.path.dirname(os.path.abspath(__file__)))

def sh(cmd, cwd, env=None, timeout=1200):
    r = subprocess.run(cmd, cwd=cwd, env=env, capture_output=True, text=True, timeout=timeout)
    return r.returncode, r.stdout + r.stderr

BASE = os.environ.get("SEED_BASE", "/tmp/wt")
OFFSET = int(os.environ.get("SEED_OFFSET", "0"))


def one(pid, j):
    src = f"{BASE}/{pid}/seed"
    patch = f"{src}/patch{j}.diff"
    if not os.path.exists(patch):
        return pid, j, {"ok": False, "why": "no patch"}
    d = tempfile.mkdtemp(prefix=f"val-{pid}-{j}-", dir="/tmp")
    res = {}
    try:
        subprocess.check_call(["rsync", "-a", "--exclude", ".git", "--exclude", "__pycache__", "/repo/", d + "/"])
        shutil.copytree(src, d + "/seed")
        demo = open(f"{d}/seed/demo{j}.py").read().replace(f"{BASE}/{pid}", d)
        open(f"{d}/seed/demo{j}.py", "w").write(demo)
        env = dict(os.environ, PYTHONPATH=d + "/src")
        rc0, out0 = sh(["/venv/bin/python", f"seed/demo{j}.py"], d, env)
        res["demo_clean_exit"] = rc0
        rc, out = sh(["patch", "-p1", "-s", "-i", patch], d)
        res["patch_applies"] = rc == 0
        changed = [l[6:].strip() for l in open(patch) if l.startswith("+++ b/")]
        res["files"] = changed
        res["only_src"] = all(c.startswith("src/joserfc/") for c in changed)
        rc1, out1 = sh(["/venv/bin/python", f"seed/demo{j}.py"], d, env)
        res["demo_patched_exit"] = rc1
        res["demo_patched_tail"] = out1.strip().splitlines()[-3:]
        rct, outt = sh(["/venv/bin/python", "-m", "pytest", "-q", "-p", "no:cacheprovider", "--timeout=900", "-x", "--maxfail=8"], d)
        failed = {l.split("::")[-1].split(" ")[0].split("[")[0] for l in outt.splitlines() if l.startswith("FAILED")}
        res["tests_failed"] = sorted(failed)
        res["tests_tail"] = outt.strip().splitlines()[-1:]
        res["tests_ok"] = failed <= KNOWN and "passed" in outt
        res["ok"] = bool(res["patch_applies"] and res["only_src"] and rc0 == 0 and rc1 != 0 and res["tests_ok"])
        out_dir = os.path.join(VERIF, "seeded", f"{pid}-{j + OFFSET}")
        if res["ok"]:
            os.makedirs(out_dir, exist_ok=True)
            shutil.copy(patch, out_dir + "/patch.diff")
            shutil.copy(f"{src}/demo{j}.py", out_dir + "/demo.py")
            meta = {}
            try: meta = json.load(open(f"{src}/meta{j}.json"))
            except Exception as e: meta = {"meta_error": str(e)}
            meta["validated_by_main"] = {"ran": ["rsync /repo -> scratch; patch -p1; PYTHONPATH=<scratch>/src python seed/demo.py (clean: exit 0, patched: exit != 0)",
                                                  "pytest -q in scratch with the patch: only the 4 known fixture failures"], **res}
            json.dump(meta, open(out_dir + "/meta.json", "w"), indent=1)
    finally:
        shutil.rmtree(d, ignore_errors=True)
    return pid, j, res

if __name__ == "__main__":
    ids = sys.argv[1:] or [f"C{i:02d}" for i in range(1, 21)]
    jobs = [(p, j) for p in ids for j in (1, 2)]
    with ThreadPoolExecutor(8) as ex:
        for pid, j, res in ex.map(lambda a: one(*a), jobs):
            print(pid, j, "OK" if res.get("ok") else "BAD", {k: v for k, v in res.items() if k not in ("demo_patched_tail",)} if not res.get("ok") else res.get("files"))
